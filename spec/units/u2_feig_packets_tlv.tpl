    // ------------------------------------------------------------------ feig::packets::tlv::File
    //@ item src:zvt/src/feig/packets/tlv.rs | struct File
    impl zvt_builder::encoding::Encoding<File> for zvt_builder::encoding::Default {
        open spec fn enc_ok(v: &File) -> bool { <Option<u8> as zvt_builder::ZvtSerializerImpl<length::Tlv, encoding::Default, zvt_builder::encoding::Default>>::ser_pre(&v.file_id, Some(zvt_builder::Tag(29u16))) && <Option<u32> as zvt_builder::ZvtSerializerImpl<length::Tlv, encoding::BigEndian, zvt_builder::encoding::Default>>::ser_pre(&v.file_offset, Some(zvt_builder::Tag(30u16))) && <Option<u32> as zvt_builder::ZvtSerializerImpl<length::Tlv, encoding::BigEndian, zvt_builder::encoding::Default>>::ser_pre(&v.file_size, Some(zvt_builder::Tag(7936u16))) && <Option<Vec<u8>> as zvt_builder::ZvtSerializerImpl<length::Tlv, Custom, zvt_builder::encoding::Default>>::ser_pre(&v.payload, Some(zvt_builder::Tag(28u16))) }
        open spec fn canon(v: &File) -> bool { false }
        /// layout table (spec/tables/layout.json): the fields in order, each under its tag / length style / encoding
        open spec fn spec_enc(v: &File) -> Seq<u8> { <Option<u8> as zvt_builder::ZvtSerializerImpl<length::Tlv, encoding::Default, zvt_builder::encoding::Default>>::spec_ser_tagged(&v.file_id, Some(zvt_builder::Tag(29u16))) + <Option<u32> as zvt_builder::ZvtSerializerImpl<length::Tlv, encoding::BigEndian, zvt_builder::encoding::Default>>::spec_ser_tagged(&v.file_offset, Some(zvt_builder::Tag(30u16))) + <Option<u32> as zvt_builder::ZvtSerializerImpl<length::Tlv, encoding::BigEndian, zvt_builder::encoding::Default>>::spec_ser_tagged(&v.file_size, Some(zvt_builder::Tag(7936u16))) + <Option<Vec<u8>> as zvt_builder::ZvtSerializerImpl<length::Tlv, Custom, zvt_builder::encoding::Default>>::spec_ser_tagged(&v.payload, Some(zvt_builder::Tag(28u16))) }
        uninterp spec fn spec_dec(b: Seq<u8>) -> Option<(File, int)>;
        open spec fn progresses() -> bool { false }
        open spec fn self_delimiting() -> bool { false }
        open spec fn dec_rel(b: Seq<u8>, v: &File, k: int) -> bool { true }
        open spec fn dec_total(b: Seq<u8>) -> bool { false }
        /// the tag loop stops only at the end of the input, in front of something that is no tag, or in front of a tag that
        /// is not one of this struct's non-repeatable fields
        open spec fn dec_stop(rest: Seq<u8>) -> bool { rest.len() == 0 || (match <zvt_builder::encoding::Default as zvt_builder::encoding::Encoding<zvt_builder::Tag>>::spec_dec(rest) { None => true, Some((t, _)) => t.0 != 29u16 && t.0 != 30u16 && t.0 != 7936u16 && t.0 != 28u16 }) }
        /// the tag loop is specified by totality and frame clauses only
        open spec fn functional() -> bool { false }
        //@ fn exp:zvt | impl zvt_builder::encoding::Encoding<File> for zvt_builder::encoding::Default | encode | mod=feig::packets::tlv props=C03,~C01
        //@ end
        //@ fn exp:zvt | impl zvt_builder::encoding::Encoding<File> for zvt_builder::encoding::Default | decode | mod=feig::packets::tlv all-loops props=C02,C14
        //@ loop 0
                invariant
                    crate::is_tail(bytes@, bytes0), crate::frame::tail_base(bytes0), bytes@.len() <= bytes0.len(),
                    curr_len <= usize::MAX,
        //@ tag tags.bookkeeping C13
                    actual_tags@ =~= seen,
                    required_tags@ =~= Set::<u16>::empty().difference(seen),
        //@ tag tags.stop C13
                    curr_len == bytes@.len() ==> <zvt_builder::encoding::Default as zvt_builder::encoding::Encoding<File>>::dec_stop(bytes@),
                ensures
                    <zvt_builder::encoding::Default as zvt_builder::encoding::Encoding<File>>::dec_stop(bytes@),
        //@ tag tags.loop.decreases C02
                decreases bytes@.len() + (if curr_len != bytes@.len() { 1nat } else { 0nat }),
        //@ entry
            let ghost bytes0 = bytes@;
            let ghost mut seen: Set<u16> = Set::<u16>::empty();
            proof { lemma_slice_len_le_isize_max(bytes); crate::frame::lemma_tail_base(bytes0); }
        //@ before (file_id,bytes)=<
        //@ tag tags.no_second_dispatch.file_id C13
            proof { assert(!seen.contains(29u16)); seen = seen.insert(29u16) ; }
        //@ before returnErr(zvt_builder::ZVTError::DuplicateTag(
        //@ tag tags.duplicate_error_is_true.file_id C13
            proof { assert(seen.contains(29u16)) ; }
        //@ before (file_offset,bytes)=<
        //@ tag tags.no_second_dispatch.file_offset C13
            proof { assert(!seen.contains(30u16)); seen = seen.insert(30u16) ; }
        //@ before returnErr(zvt_builder::ZVTError::DuplicateTag(
        //@ tag tags.duplicate_error_is_true.file_offset C13
            proof { assert(seen.contains(30u16)) ; }
        //@ before (file_size,bytes)=<
        //@ tag tags.no_second_dispatch.file_size C13
            proof { assert(!seen.contains(7936u16)); seen = seen.insert(7936u16) ; }
        //@ before returnErr(zvt_builder::ZVTError::DuplicateTag(
        //@ tag tags.duplicate_error_is_true.file_size C13
            proof { assert(seen.contains(7936u16)) ; }
        //@ before (payload,bytes)=<
        //@ tag tags.no_second_dispatch.payload C13
            proof { assert(!seen.contains(28u16)); seen = seen.insert(28u16) ; }
        //@ before returnErr(zvt_builder::ZVTError::DuplicateTag(
        //@ tag tags.duplicate_error_is_true.payload C13
            proof { assert(seen.contains(28u16)) ; }
        //@ before letmutas_vec
            let ghost req_left = required_tags@;
        //@ before returnErr(zvt_builder::ZVTError::MissingRequiredTags
        //@ tag tags.missing_names_all C13
            proof {
                assert(req_left =~= Set::<u16>::empty().difference(seen));
                assert forall|i: int| 0 <= i < as_vec@.len() implies Set::<u16>::empty().contains((#[trigger] as_vec@[i]).0) && !seen.contains(as_vec@[i].0) by {
                    assert(req_left.contains(as_vec@[i].0));
                }
                assert forall|t: u16| Set::<u16>::empty().contains(t) && !seen.contains(t) implies exists|i: int| 0 <= i < as_vec@.len() && (#[trigger] as_vec@[i]).0 == t by {
                    assert(req_left.contains(t));
                }
            }
        //@ tail
        //@ tag tags.ok_only_if_all_mandatory C13
            proof { assert(Set::<u16>::empty().subset_of(seen)); }
        //@ end
        proof fn law_dec_bounds(b: Seq<u8>) {}
        proof fn law_dec_frame(b: Seq<u8>, s: Seq<u8>) {}
        proof fn law_inverse(v: &File) {}
    }

    // ------------------------------------------------------------------ feig::packets::tlv::WriteData
    //@ item src:zvt/src/feig/packets/tlv.rs | struct WriteData
    impl zvt_builder::encoding::Encoding<WriteData> for zvt_builder::encoding::Default {
        open spec fn enc_ok(v: &WriteData) -> bool { <Option<File> as zvt_builder::ZvtSerializerImpl<length::Tlv, encoding::Default, zvt_builder::encoding::Default>>::ser_pre(&v.file, Some(zvt_builder::Tag(45u16))) }
        open spec fn canon(v: &WriteData) -> bool { false }
        /// layout table (spec/tables/layout.json): the fields in order, each under its tag / length style / encoding
        open spec fn spec_enc(v: &WriteData) -> Seq<u8> { <Option<File> as zvt_builder::ZvtSerializerImpl<length::Tlv, encoding::Default, zvt_builder::encoding::Default>>::spec_ser_tagged(&v.file, Some(zvt_builder::Tag(45u16))) }
        uninterp spec fn spec_dec(b: Seq<u8>) -> Option<(WriteData, int)>;
        open spec fn progresses() -> bool { false }
        open spec fn self_delimiting() -> bool { false }
        open spec fn dec_rel(b: Seq<u8>, v: &WriteData, k: int) -> bool { true }
        open spec fn dec_total(b: Seq<u8>) -> bool { false }
        /// the tag loop stops only at the end of the input, in front of something that is no tag, or in front of a tag that
        /// is not one of this struct's non-repeatable fields
        open spec fn dec_stop(rest: Seq<u8>) -> bool { rest.len() == 0 || (match <zvt_builder::encoding::Default as zvt_builder::encoding::Encoding<zvt_builder::Tag>>::spec_dec(rest) { None => true, Some((t, _)) => t.0 != 45u16 }) }
        /// the tag loop is specified by totality and frame clauses only
        open spec fn functional() -> bool { false }
        //@ fn exp:zvt | impl zvt_builder::encoding::Encoding<WriteData> for zvt_builder::encoding::Default | encode | mod=feig::packets::tlv props=C03,~C01
        //@ end
        //@ fn exp:zvt | impl zvt_builder::encoding::Encoding<WriteData> for zvt_builder::encoding::Default | decode | mod=feig::packets::tlv all-loops props=C02,C14
        //@ loop 0
                invariant
                    crate::is_tail(bytes@, bytes0), crate::frame::tail_base(bytes0), bytes@.len() <= bytes0.len(),
                    curr_len <= usize::MAX,
        //@ tag tags.bookkeeping C13
                    actual_tags@ =~= seen,
                    required_tags@ =~= Set::<u16>::empty().difference(seen),
        //@ tag tags.stop C13
                    curr_len == bytes@.len() ==> <zvt_builder::encoding::Default as zvt_builder::encoding::Encoding<WriteData>>::dec_stop(bytes@),
                ensures
                    <zvt_builder::encoding::Default as zvt_builder::encoding::Encoding<WriteData>>::dec_stop(bytes@),
        //@ tag tags.loop.decreases C02
                decreases bytes@.len() + (if curr_len != bytes@.len() { 1nat } else { 0nat }),
        //@ entry
            let ghost bytes0 = bytes@;
            let ghost mut seen: Set<u16> = Set::<u16>::empty();
            proof { lemma_slice_len_le_isize_max(bytes); crate::frame::lemma_tail_base(bytes0); }
        //@ before (file,bytes)=<
        //@ tag tags.no_second_dispatch.file C13
            proof { assert(!seen.contains(45u16)); seen = seen.insert(45u16) ; }
        //@ before returnErr(zvt_builder::ZVTError::DuplicateTag(
        //@ tag tags.duplicate_error_is_true.file C13
            proof { assert(seen.contains(45u16)) ; }
        //@ before letmutas_vec
            let ghost req_left = required_tags@;
        //@ before returnErr(zvt_builder::ZVTError::MissingRequiredTags
        //@ tag tags.missing_names_all C13
            proof {
                assert(req_left =~= Set::<u16>::empty().difference(seen));
                assert forall|i: int| 0 <= i < as_vec@.len() implies Set::<u16>::empty().contains((#[trigger] as_vec@[i]).0) && !seen.contains(as_vec@[i].0) by {
                    assert(req_left.contains(as_vec@[i].0));
                }
                assert forall|t: u16| Set::<u16>::empty().contains(t) && !seen.contains(t) implies exists|i: int| 0 <= i < as_vec@.len() && (#[trigger] as_vec@[i]).0 == t by {
                    assert(req_left.contains(t));
                }
            }
        //@ tail
        //@ tag tags.ok_only_if_all_mandatory C13
            proof { assert(Set::<u16>::empty().subset_of(seen)); }
        //@ end
        proof fn law_dec_bounds(b: Seq<u8>) {}
        proof fn law_dec_frame(b: Seq<u8>, s: Seq<u8>) {}
        proof fn law_inverse(v: &WriteData) {}
    }

    // ------------------------------------------------------------------ feig::packets::tlv::WriteFile
    //@ item src:zvt/src/feig/packets/tlv.rs | struct WriteFile
    impl zvt_builder::encoding::Encoding<WriteFile> for zvt_builder::encoding::Default {
        open spec fn enc_ok(v: &WriteFile) -> bool { <Vec<File> as zvt_builder::ZvtSerializerImpl<length::Tlv, encoding::Default, zvt_builder::encoding::Default>>::ser_pre(&v.files, Some(zvt_builder::Tag(45u16))) }
        open spec fn canon(v: &WriteFile) -> bool { false }
        /// layout table (spec/tables/layout.json): the fields in order, each under its tag / length style / encoding
        open spec fn spec_enc(v: &WriteFile) -> Seq<u8> { <Vec<File> as zvt_builder::ZvtSerializerImpl<length::Tlv, encoding::Default, zvt_builder::encoding::Default>>::spec_ser_tagged(&v.files, Some(zvt_builder::Tag(45u16))) }
        uninterp spec fn spec_dec(b: Seq<u8>) -> Option<(WriteFile, int)>;
        open spec fn progresses() -> bool { false }
        open spec fn self_delimiting() -> bool { false }
        open spec fn dec_rel(b: Seq<u8>, v: &WriteFile, k: int) -> bool { true }
        open spec fn dec_total(b: Seq<u8>) -> bool { false }
        /// the tag loop stops only at the end of the input, in front of something that is no tag, or in front of a tag that
        /// is not one of this struct's non-repeatable fields
        open spec fn dec_stop(rest: Seq<u8>) -> bool { rest.len() == 0 || (match <zvt_builder::encoding::Default as zvt_builder::encoding::Encoding<zvt_builder::Tag>>::spec_dec(rest) { None => true, Some((t, _)) => true }) }
        /// the tag loop is specified by totality and frame clauses only
        open spec fn functional() -> bool { false }
        //@ fn exp:zvt | impl zvt_builder::encoding::Encoding<WriteFile> for zvt_builder::encoding::Default | encode | mod=feig::packets::tlv props=C03,~C01
        //@ end
        //@ fn exp:zvt | impl zvt_builder::encoding::Encoding<WriteFile> for zvt_builder::encoding::Default | decode | mod=feig::packets::tlv all-loops props=C02,C14
        //@ loop 0
                invariant
                    crate::is_tail(bytes@, bytes0), crate::frame::tail_base(bytes0), bytes@.len() <= bytes0.len(),
                    curr_len <= usize::MAX,
        //@ tag tags.bookkeeping C13
                    actual_tags@ =~= seen,
                    required_tags@ =~= Set::<u16>::empty().difference(seen),
        //@ tag tags.stop C13
                    curr_len == bytes@.len() ==> <zvt_builder::encoding::Default as zvt_builder::encoding::Encoding<WriteFile>>::dec_stop(bytes@),
                ensures
                    <zvt_builder::encoding::Default as zvt_builder::encoding::Encoding<WriteFile>>::dec_stop(bytes@),
        //@ tag tags.loop.decreases C02
                decreases bytes@.len() + (if curr_len != bytes@.len() { 1nat } else { 0nat }),
        //@ entry
            let ghost bytes0 = bytes@;
            let ghost mut seen: Set<u16> = Set::<u16>::empty();
            proof { lemma_slice_len_le_isize_max(bytes); crate::frame::lemma_tail_base(bytes0); }
        //@ before (files,bytes)=<
        //@ tag tags.no_second_dispatch.files C13
            proof { assert(!seen.contains(45u16)); seen = seen.insert(45u16) ; }
            let ghost b_pre = bytes@;
        //@ after (files,bytes)=<
        //@ tag tags.stop C13
            proof { if curr_len == bytes@.len() { crate::frame::lemma_tail_same_len(bytes@, b_pre); } }
        //@ before returnErr(zvt_builder::ZVTError::DuplicateTag(
        //@ tag tags.duplicate_error_is_true.files C13
            proof { assert(seen.contains(45u16)) ; }
        //@ before letmutas_vec
            let ghost req_left = required_tags@;
        //@ before returnErr(zvt_builder::ZVTError::MissingRequiredTags
        //@ tag tags.missing_names_all C13
            proof {
                assert(req_left =~= Set::<u16>::empty().difference(seen));
                assert forall|i: int| 0 <= i < as_vec@.len() implies Set::<u16>::empty().contains((#[trigger] as_vec@[i]).0) && !seen.contains(as_vec@[i].0) by {
                    assert(req_left.contains(as_vec@[i].0));
                }
                assert forall|t: u16| Set::<u16>::empty().contains(t) && !seen.contains(t) implies exists|i: int| 0 <= i < as_vec@.len() && (#[trigger] as_vec@[i]).0 == t by {
                    assert(req_left.contains(t));
                }
            }
        //@ tail
        //@ tag tags.ok_only_if_all_mandatory C13
            proof { assert(Set::<u16>::empty().subset_of(seen)); }
        //@ end
        proof fn law_dec_bounds(b: Seq<u8>) {}
        proof fn law_dec_frame(b: Seq<u8>, s: Seq<u8>) {}
        proof fn law_inverse(v: &WriteFile) {}
    }

    // ------------------------------------------------------------------ feig::packets::tlv::HostConfigurationData
    //@ item src:zvt/src/feig/packets/tlv.rs | struct HostConfigurationData
    impl zvt_builder::encoding::Encoding<HostConfigurationData> for zvt_builder::encoding::Default {
        open spec fn enc_ok(v: &HostConfigurationData) -> bool { <u32 as zvt_builder::ZvtSerializerImpl<length::Empty, encoding::BigEndian, zvt_builder::encoding::Default>>::ser_pre(&v.ip, None) && <u16 as zvt_builder::ZvtSerializerImpl<length::Empty, encoding::BigEndian, zvt_builder::encoding::Default>>::ser_pre(&v.port, None) && <u8 as zvt_builder::ZvtSerializerImpl<length::Empty, encoding::BigEndian, zvt_builder::encoding::Default>>::ser_pre(&v.config_byte, None) }
        open spec fn canon(v: &HostConfigurationData) -> bool { false }
        /// layout table (spec/tables/layout.json): the fields in order, each under its tag / length style / encoding
        open spec fn spec_enc(v: &HostConfigurationData) -> Seq<u8> { <u32 as zvt_builder::ZvtSerializerImpl<length::Empty, encoding::BigEndian, zvt_builder::encoding::Default>>::spec_ser_tagged(&v.ip, None) + <u16 as zvt_builder::ZvtSerializerImpl<length::Empty, encoding::BigEndian, zvt_builder::encoding::Default>>::spec_ser_tagged(&v.port, None) + <u8 as zvt_builder::ZvtSerializerImpl<length::Empty, encoding::BigEndian, zvt_builder::encoding::Default>>::spec_ser_tagged(&v.config_byte, None) }
        uninterp spec fn spec_dec(b: Seq<u8>) -> Option<(HostConfigurationData, int)>;
        open spec fn progresses() -> bool { false }
        open spec fn self_delimiting() -> bool { false }
        open spec fn dec_rel(b: Seq<u8>, v: &HostConfigurationData, k: int) -> bool { true }
        open spec fn dec_total(b: Seq<u8>) -> bool { false }
        /// the tag loop stops only at the end of the input, in front of something that is no tag, or in front of a tag that
        /// is not one of this struct's non-repeatable fields
        open spec fn dec_stop(rest: Seq<u8>) -> bool { rest.len() == 0 || (match <zvt_builder::encoding::Default as zvt_builder::encoding::Encoding<zvt_builder::Tag>>::spec_dec(rest) { None => true, Some((t, _)) => true }) }
        /// the tag loop is specified by totality and frame clauses only
        open spec fn functional() -> bool { false }
        //@ fn exp:zvt | impl zvt_builder::encoding::Encoding<HostConfigurationData> for zvt_builder::encoding::Default | encode | mod=feig::packets::tlv props=C03,~C01
        //@ end
        //@ fn exp:zvt | impl zvt_builder::encoding::Encoding<HostConfigurationData> for zvt_builder::encoding::Default | decode | mod=feig::packets::tlv all-loops props=C02,C14
        //@ loop 0
                invariant
                    crate::is_tail(bytes@, bytes0), crate::frame::tail_base(bytes0), bytes@.len() <= bytes0.len(),
                    curr_len <= usize::MAX,
        //@ tag tags.bookkeeping C13
                    actual_tags@ =~= seen,
                    required_tags@ =~= Set::<u16>::empty().difference(seen),
        //@ tag tags.stop C13
                    curr_len == bytes@.len() ==> <zvt_builder::encoding::Default as zvt_builder::encoding::Encoding<HostConfigurationData>>::dec_stop(bytes@),
                ensures
                    <zvt_builder::encoding::Default as zvt_builder::encoding::Encoding<HostConfigurationData>>::dec_stop(bytes@),
        //@ tag tags.loop.decreases C02
                decreases bytes@.len() + (if curr_len != bytes@.len() { 1nat } else { 0nat }),
        //@ entry
            let ghost bytes0 = bytes@;
            let ghost mut seen: Set<u16> = Set::<u16>::empty();
            proof { lemma_slice_len_le_isize_max(bytes); crate::frame::lemma_tail_base(bytes0); }
        //@ before letmutas_vec
            let ghost req_left = required_tags@;
        //@ before returnErr(zvt_builder::ZVTError::MissingRequiredTags
        //@ tag tags.missing_names_all C13
            proof {
                assert(req_left =~= Set::<u16>::empty().difference(seen));
                assert forall|i: int| 0 <= i < as_vec@.len() implies Set::<u16>::empty().contains((#[trigger] as_vec@[i]).0) && !seen.contains(as_vec@[i].0) by {
                    assert(req_left.contains(as_vec@[i].0));
                }
                assert forall|t: u16| Set::<u16>::empty().contains(t) && !seen.contains(t) implies exists|i: int| 0 <= i < as_vec@.len() && (#[trigger] as_vec@[i]).0 == t by {
                    assert(req_left.contains(t));
                }
            }
        //@ tail
        //@ tag tags.ok_only_if_all_mandatory C13
            proof { assert(Set::<u16>::empty().subset_of(seen)); }
        //@ end
        proof fn law_dec_bounds(b: Seq<u8>) {}
        proof fn law_dec_frame(b: Seq<u8>, s: Seq<u8>) {}
        proof fn law_inverse(v: &HostConfigurationData) {}
    }

    // ------------------------------------------------------------------ feig::packets::tlv::SystemInformation
    //@ item src:zvt/src/feig/packets/tlv.rs | struct SystemInformation
    impl zvt_builder::encoding::Encoding<SystemInformation> for zvt_builder::encoding::Default {
        open spec fn enc_ok(v: &SystemInformation) -> bool { <usize as zvt_builder::ZvtSerializerImpl<length::Tlv, encoding::Bcd, zvt_builder::encoding::Default>>::ser_pre(&v.password, Some(zvt_builder::Tag(65344u16))) && <Option<HostConfigurationData> as zvt_builder::ZvtSerializerImpl<length::Tlv, encoding::Default, zvt_builder::encoding::Default>>::ser_pre(&v.host_configuration_data, Some(zvt_builder::Tag(65345u16))) }
        open spec fn canon(v: &SystemInformation) -> bool { false }
        /// layout table (spec/tables/layout.json): the fields in order, each under its tag / length style / encoding
        open spec fn spec_enc(v: &SystemInformation) -> Seq<u8> { <usize as zvt_builder::ZvtSerializerImpl<length::Tlv, encoding::Bcd, zvt_builder::encoding::Default>>::spec_ser_tagged(&v.password, Some(zvt_builder::Tag(65344u16))) + <Option<HostConfigurationData> as zvt_builder::ZvtSerializerImpl<length::Tlv, encoding::Default, zvt_builder::encoding::Default>>::spec_ser_tagged(&v.host_configuration_data, Some(zvt_builder::Tag(65345u16))) }
        uninterp spec fn spec_dec(b: Seq<u8>) -> Option<(SystemInformation, int)>;
        open spec fn progresses() -> bool { false }
        open spec fn self_delimiting() -> bool { false }
        open spec fn dec_rel(b: Seq<u8>, v: &SystemInformation, k: int) -> bool { true }
        open spec fn dec_total(b: Seq<u8>) -> bool { false }
        /// the tag loop stops only at the end of the input, in front of something that is no tag, or in front of a tag that
        /// is not one of this struct's non-repeatable fields
        open spec fn dec_stop(rest: Seq<u8>) -> bool { rest.len() == 0 || (match <zvt_builder::encoding::Default as zvt_builder::encoding::Encoding<zvt_builder::Tag>>::spec_dec(rest) { None => true, Some((t, _)) => t.0 != 65344u16 && t.0 != 65345u16 }) }
        /// the tag loop is specified by totality and frame clauses only
        open spec fn functional() -> bool { false }
        //@ fn exp:zvt | impl zvt_builder::encoding::Encoding<SystemInformation> for zvt_builder::encoding::Default | encode | mod=feig::packets::tlv props=C03,~C01
        //@ end
        //@ fn exp:zvt | impl zvt_builder::encoding::Encoding<SystemInformation> for zvt_builder::encoding::Default | decode | mod=feig::packets::tlv all-loops props=C02,C14
        //@ loop 0
                invariant
                    crate::is_tail(bytes@, bytes0), crate::frame::tail_base(bytes0), bytes@.len() <= bytes0.len(),
                    curr_len <= usize::MAX,
        //@ tag tags.bookkeeping C13
                    actual_tags@ =~= seen,
                    required_tags@ =~= set![65344u16].difference(seen),
        //@ tag tags.stop C13
                    curr_len == bytes@.len() ==> <zvt_builder::encoding::Default as zvt_builder::encoding::Encoding<SystemInformation>>::dec_stop(bytes@),
                ensures
                    <zvt_builder::encoding::Default as zvt_builder::encoding::Encoding<SystemInformation>>::dec_stop(bytes@),
        //@ tag tags.loop.decreases C02
                decreases bytes@.len() + (if curr_len != bytes@.len() { 1nat } else { 0nat }),
        //@ entry
            let ghost bytes0 = bytes@;
            let ghost mut seen: Set<u16> = Set::<u16>::empty();
            proof { lemma_slice_len_le_isize_max(bytes); crate::frame::lemma_tail_base(bytes0); }
        //@ before (password,bytes)=<
        //@ tag tags.no_second_dispatch.password C13
            proof { assert(!seen.contains(65344u16)); seen = seen.insert(65344u16) ; }
        //@ before returnErr(zvt_builder::ZVTError::DuplicateTag(
        //@ tag tags.duplicate_error_is_true.password C13
            proof { assert(seen.contains(65344u16)) ; }
        //@ before (host_configuration_data,bytes)=<
        //@ tag tags.no_second_dispatch.host_configuration_data C13
            proof { assert(!seen.contains(65345u16)); seen = seen.insert(65345u16) ; }
        //@ before returnErr(zvt_builder::ZVTError::DuplicateTag(
        //@ tag tags.duplicate_error_is_true.host_configuration_data C13
            proof { assert(seen.contains(65345u16)) ; }
        //@ before letmutas_vec
            let ghost req_left = required_tags@;
        //@ before returnErr(zvt_builder::ZVTError::MissingRequiredTags
        //@ tag tags.missing_names_all C13
            proof {
                assert(req_left =~= set![65344u16].difference(seen));
                assert forall|i: int| 0 <= i < as_vec@.len() implies set![65344u16].contains((#[trigger] as_vec@[i]).0) && !seen.contains(as_vec@[i].0) by {
                    assert(req_left.contains(as_vec@[i].0));
                }
                assert forall|t: u16| set![65344u16].contains(t) && !seen.contains(t) implies exists|i: int| 0 <= i < as_vec@.len() && (#[trigger] as_vec@[i]).0 == t by {
                    assert(req_left.contains(t));
                }
            }
        //@ tail
        //@ tag tags.ok_only_if_all_mandatory C13
            proof { assert(!set![65344u16].difference(seen).contains(65344u16)); assert(set![65344u16].subset_of(seen)); }
        //@ end
        proof fn law_dec_bounds(b: Seq<u8>) {}
        proof fn law_dec_frame(b: Seq<u8>, s: Seq<u8>) {}
        proof fn law_inverse(v: &SystemInformation) {}
    }

    // ------------------------------------------------------------------ feig::packets::tlv::ChangeConfiguration
    //@ item src:zvt/src/feig/packets/tlv.rs | struct ChangeConfiguration
    impl zvt_builder::encoding::Encoding<ChangeConfiguration> for zvt_builder::encoding::Default {
        open spec fn enc_ok(v: &ChangeConfiguration) -> bool { <SystemInformation as zvt_builder::ZvtSerializerImpl<length::Tlv, encoding::Default, zvt_builder::encoding::Default>>::ser_pre(&v.system_information, Some(zvt_builder::Tag(228u16))) }
        open spec fn canon(v: &ChangeConfiguration) -> bool { false }
        /// layout table (spec/tables/layout.json): the fields in order, each under its tag / length style / encoding
        open spec fn spec_enc(v: &ChangeConfiguration) -> Seq<u8> { <SystemInformation as zvt_builder::ZvtSerializerImpl<length::Tlv, encoding::Default, zvt_builder::encoding::Default>>::spec_ser_tagged(&v.system_information, Some(zvt_builder::Tag(228u16))) }
        uninterp spec fn spec_dec(b: Seq<u8>) -> Option<(ChangeConfiguration, int)>;
        open spec fn progresses() -> bool { false }
        open spec fn self_delimiting() -> bool { false }
        open spec fn dec_rel(b: Seq<u8>, v: &ChangeConfiguration, k: int) -> bool { true }
        open spec fn dec_total(b: Seq<u8>) -> bool { false }
        /// the tag loop stops only at the end of the input, in front of something that is no tag, or in front of a tag that
        /// is not one of this struct's non-repeatable fields
        open spec fn dec_stop(rest: Seq<u8>) -> bool { rest.len() == 0 || (match <zvt_builder::encoding::Default as zvt_builder::encoding::Encoding<zvt_builder::Tag>>::spec_dec(rest) { None => true, Some((t, _)) => t.0 != 228u16 }) }
        /// the tag loop is specified by totality and frame clauses only
        open spec fn functional() -> bool { false }
        //@ fn exp:zvt | impl zvt_builder::encoding::Encoding<ChangeConfiguration> for zvt_builder::encoding::Default | encode | mod=feig::packets::tlv props=C03,~C01
        //@ end
        //@ fn exp:zvt | impl zvt_builder::encoding::Encoding<ChangeConfiguration> for zvt_builder::encoding::Default | decode | mod=feig::packets::tlv all-loops props=C02,C14
        //@ loop 0
                invariant
                    crate::is_tail(bytes@, bytes0), crate::frame::tail_base(bytes0), bytes@.len() <= bytes0.len(),
                    curr_len <= usize::MAX,
        //@ tag tags.bookkeeping C13
                    actual_tags@ =~= seen,
                    required_tags@ =~= set![228u16].difference(seen),
        //@ tag tags.stop C13
                    curr_len == bytes@.len() ==> <zvt_builder::encoding::Default as zvt_builder::encoding::Encoding<ChangeConfiguration>>::dec_stop(bytes@),
                ensures
                    <zvt_builder::encoding::Default as zvt_builder::encoding::Encoding<ChangeConfiguration>>::dec_stop(bytes@),
        //@ tag tags.loop.decreases C02
                decreases bytes@.len() + (if curr_len != bytes@.len() { 1nat } else { 0nat }),
        //@ entry
            let ghost bytes0 = bytes@;
            let ghost mut seen: Set<u16> = Set::<u16>::empty();
            proof { lemma_slice_len_le_isize_max(bytes); crate::frame::lemma_tail_base(bytes0); }
        //@ before (system_information,bytes)=<
        //@ tag tags.no_second_dispatch.system_information C13
            proof { assert(!seen.contains(228u16)); seen = seen.insert(228u16) ; }
        //@ before returnErr(zvt_builder::ZVTError::DuplicateTag(
        //@ tag tags.duplicate_error_is_true.system_information C13
            proof { assert(seen.contains(228u16)) ; }
        //@ before letmutas_vec
            let ghost req_left = required_tags@;
        //@ before returnErr(zvt_builder::ZVTError::MissingRequiredTags
        //@ tag tags.missing_names_all C13
            proof {
                assert(req_left =~= set![228u16].difference(seen));
                assert forall|i: int| 0 <= i < as_vec@.len() implies set![228u16].contains((#[trigger] as_vec@[i]).0) && !seen.contains(as_vec@[i].0) by {
                    assert(req_left.contains(as_vec@[i].0));
                }
                assert forall|t: u16| set![228u16].contains(t) && !seen.contains(t) implies exists|i: int| 0 <= i < as_vec@.len() && (#[trigger] as_vec@[i]).0 == t by {
                    assert(req_left.contains(t));
                }
            }
        //@ tail
        //@ tag tags.ok_only_if_all_mandatory C13
            proof { assert(!set![228u16].difference(seen).contains(228u16)); assert(set![228u16].subset_of(seen)); }
        //@ end
        proof fn law_dec_bounds(b: Seq<u8>) {}
        proof fn law_dec_frame(b: Seq<u8>, s: Seq<u8>) {}
        proof fn law_inverse(v: &ChangeConfiguration) {}
    }

