use encoding::Encoding;
//@ item src:zvt_builder/src/lib.rs | enum ZVTError | derive=Debug
//@ item src:zvt_builder/src/lib.rs | type ZVTResult
//@ item src:zvt_builder/src/lib.rs | struct Tag | derive=Debug,PartialEq,Eq,Structural
// `#[derive(Clone)]` written out (field-wise clone), so that `tag.clone()` has a specification
impl Clone for Tag {
    fn clone(&self) -> (r: Self)
        ensures r == *self
    { Tag(self.0) }
}
//@ item src:zvt_builder/src/lib.rs | trait ZvtCommand
/// `?` applies `From::from` to the error; inside zvt_builder the error type is already ZVTError (identity, N9)
pub trait IntoVErr { spec fn as_verr(self) -> ZVTError; fn into_verr(self) -> (r: ZVTError) ensures r == self.as_verr(); }
impl IntoVErr for ZVTError { open spec fn as_verr(self) -> ZVTError { self } fn into_verr(self) -> (r: ZVTError) { self } }

pub mod frame {
    use vstd::prelude::*;
    //@ include ../prelude/frame.rs
}
pub use frame::is_tail;
use frame::*;
broadcast use {lemma_tail_intro, lemma_tail_elim, lemma_tail_refl};

// ---- reference semantics of `<TAG> <LENGTH> <DATA>` (C01/C03/C14), generic in the three styles ----
pub open spec fn tag_bytes<TE: encoding::Encoding<Tag>>(tag: Option<Tag>) -> Seq<u8> {
    match tag { Some(t) => TE::spec_enc(&t), None => Seq::<u8>::empty() }
}
pub open spec fn default_ser_pre<T, L: length::Length, E: encoding::Encoding<T>, TE: encoding::Encoding<Tag>>(v: &T, tag: Option<Tag>) -> bool {
    L::wf() && E::enc_ok(v) && E::spec_enc(v).len() <= usize::MAX && L::ser_ok(E::spec_enc(v).len() as usize)
        && (tag matches Some(t) ==> TE::enc_ok(&t))
}
pub open spec fn default_spec_ser<T, L: length::Length, E: encoding::Encoding<T>, TE: encoding::Encoding<Tag>>(v: &T, tag: Option<Tag>) -> Seq<u8> {
    tag_bytes::<TE>(tag) + L::spec_ser(E::spec_enc(v).len() as usize) + E::spec_enc(v)
}
/// after the tag: length prefix, then exactly `n` payload bytes handed to the value decoder
pub open spec fn default_spec_deser_body<T, L: length::Length, E: encoding::Encoding<T>>(b1: Seq<u8>, k0: int) -> Option<(T, int)> {
    match L::spec_deser(b1) {
        None => None,
        Some((n, k)) => if n > b1.len() - k { None } else {
            match E::spec_dec(b1.skip(k).subrange(0, n as int)) {
                None => None,
                Some((v, c)) => Some((v, k0 + k + c)),
            }
        },
    }
}
pub open spec fn default_spec_deser<T, L: length::Length, E: encoding::Encoding<T>, TE: encoding::Encoding<Tag>>(b: Seq<u8>, tag: Option<Tag>) -> Option<(T, int)> {
    match tag {
        Some(t) => match TE::spec_dec(b) {
            None => None,
            Some((t2, k0)) => if t2 != t { None } else { default_spec_deser_body::<T, L, E>(b.skip(k0), k0) },
        },
        None => default_spec_deser_body::<T, L, E>(b, 0),
    }
}

//@ tag st.lemma_tagged_inverse C01
/// TAG LENGTH DATA written by the reference serialiser reads back as the same value, consuming
/// exactly what was written, whatever follows (for delimiting length styles).
pub proof fn lemma_tagged_inverse<T, L: length::Length, E: encoding::Encoding<T>, TE: encoding::Encoding<Tag>>(v: &T, tag: Option<Tag>, s: Seq<u8>)
    requires
        default_ser_pre::<T, L, E, TE>(v, tag),
        L::delimiting() || s.len() == 0,
        tag matches Some(t) ==> TE::self_delimiting() && TE::canon(&t),
        // canonical value: survives the padding this length style adds (no padding: E::law_inverse)
        E::spec_dec(L::spec_pad(E::spec_enc(v).len() as usize) + E::spec_enc(v))
            == Some((*v, (L::spec_pad(E::spec_enc(v).len() as usize) + E::spec_enc(v)).len() as int)),
    ensures
        default_spec_deser::<T, L, E, TE>(default_spec_ser::<T, L, E, TE>(v, tag) + s, tag)
            == Some((*v, default_spec_ser::<T, L, E, TE>(v, tag).len() as int)),
{
    let enc = E::spec_enc(v);
    let len = enc.len() as usize;
    let pre = L::spec_ser(len);
    let tb = tag_bytes::<TE>(tag);
    let b = default_spec_ser::<T, L, E, TE>(v, tag) + s;
    let b1 = pre + enc + s;
    assert(b =~= tb + b1);
    L::law_inverse(len, enc, s);
    let (n, k) = L::spec_deser(b1).unwrap();
    assert(b1.skip(k).subrange(0, n as int) =~= b1.subrange(k, k + n));
    match tag {
        Some(t) => {
            TE::law_inverse(&t);
            TE::law_dec_frame(tb, b1);
            assert(b.skip(tb.len() as int) =~= b1);
        }
        None => {
            assert(b =~= b1);
        }
    }
}

//@ tag st.lemma_tagged_frame C14
/// a decoded field depends only on the bytes inside its announced length: appending anything
/// changes neither the value nor the number of bytes consumed
pub proof fn lemma_tagged_frame<T, L: length::Length, E: encoding::Encoding<T>, TE: encoding::Encoding<Tag>>(b: Seq<u8>, tag: Option<Tag>, s: Seq<u8>)
    requires
        L::wf(), L::delimiting(),
        tag is Some ==> TE::self_delimiting() && TE::functional(),
        default_spec_deser::<T, L, E, TE>(b, tag) is Some,
    ensures
        default_spec_deser::<T, L, E, TE>(b + s, tag) == default_spec_deser::<T, L, E, TE>(b, tag),
{
    match tag {
        Some(t) => {
            TE::law_dec_frame(b, s);
            let k0 = TE::spec_dec(b).unwrap().1;
            lemma_body_frame::<T, L, E>(b.skip(k0), k0, s);
            TE::law_dec_bounds(b);
            assert((b + s).skip(k0) =~= b.skip(k0) + s);
        }
        None => {
            lemma_body_frame::<T, L, E>(b, 0, s);
        }
    }
}
pub proof fn lemma_body_frame<T, L: length::Length, E: encoding::Encoding<T>>(b1: Seq<u8>, k0: int, s: Seq<u8>)
    requires L::wf(), L::delimiting(), default_spec_deser_body::<T, L, E>(b1, k0) is Some,
    ensures default_spec_deser_body::<T, L, E>(b1 + s, k0) == default_spec_deser_body::<T, L, E>(b1, k0),
{
    L::law_frame(b1, s);
    let (n, k) = L::spec_deser(b1).unwrap();
    L::law_bounds(b1);
    assert((b1 + s).skip(k).subrange(0, n as int) =~= b1.skip(k).subrange(0, n as int));
}
//@ untag

pub trait ZvtSerializerImpl<
    L: length::Length = length::Empty,
    E: encoding::Encoding<Self> = encoding::Default,
    TE: encoding::Encoding<Tag> = encoding::Default,
> where
    Self: Sized,
{
    spec fn ser_pre(&self, tag: Option<Tag>) -> bool;
    spec fn spec_ser_tagged(&self, tag: Option<Tag>) -> Seq<u8>;
    spec fn deser_pre(tag: Option<Tag>) -> bool;
    /// every successful decode consumes at least one byte
    spec fn deser_progresses(tag: Option<Tag>) -> bool;
    /// the functional clauses below apply (the value decoder is completely specified)
    spec fn functional() -> bool;
    /// the decoder succeeds exactly on these inputs
    spec fn deser_defined(b: Seq<u8>, tag: Option<Tag>) -> bool;
    /// what a successful result (value, bytes consumed) must satisfy
    spec fn deser_ok(b: Seq<u8>, tag: Option<Tag>, v: Self, k: int) -> bool;

    // N15: the default bodies of the two methods are verified where they are inherited
    // (materialised into every impl that does not override them); the trait only declares them.
    //@ fn src:zvt_builder/src/lib.rs | trait ZvtSerializerImpl | serialize_tagged | sig dropbody props=C03,C01
    //@ tag st.ser.exact C03 C01
        requires self.ser_pre(tag),
        ensures r@ =~= self.spec_ser_tagged(tag),
    //@ end
    //@ fn src:zvt_builder/src/lib.rs | trait ZvtSerializerImpl | deserialize_tagged | sig dropbody props=C02,C14
        requires Self::deser_pre(tag),
        ensures
    //@ tag st.deser.defined C01 C02
            Self::functional() ==> (r is Ok <==> Self::deser_defined(bytes@, tag)),
    //@ tag st.deser.frame C14
            r matches Ok((v, rest)) ==> is_tail(rest@, bytes@) && rest@.len() <= bytes@.len(),
    //@ tag st.deser.ok C01 C14
            Self::functional() ==> (r matches Ok((v, rest)) ==> Self::deser_ok(bytes@, tag, v, bytes@.len() - rest@.len())),
    //@ tag st.deser.progress C02
            Self::deser_progresses(tag) ==> (r matches Ok((v, rest)) ==> rest@.len() < bytes@.len()),
    //@ end
}

// ------------------------------------------------------------------ Option<T>: absent value, absent bytes
impl<T, L: length::Length, E: encoding::Encoding<T>, TE: encoding::Encoding<Tag>>
    ZvtSerializerImpl<L, E, TE> for Option<T>
where
    T: ZvtSerializerImpl<L, E, TE>,
{
    open spec fn ser_pre(&self, tag: Option<Tag>) -> bool { match self { None => true, Some(d) => d.ser_pre(tag) } }
    /// nothing at all (no tag either) when absent; exactly the inner form when present
    open spec fn spec_ser_tagged(&self, tag: Option<Tag>) -> Seq<u8> { match self { None => Seq::<u8>::empty(), Some(d) => d.spec_ser_tagged(tag) } }
    open spec fn deser_pre(tag: Option<Tag>) -> bool { T::deser_pre(tag) }
    open spec fn functional() -> bool { T::functional() }
    open spec fn deser_progresses(tag: Option<Tag>) -> bool { tag is Some && T::deser_progresses(tag) }
    /// tagged: fails exactly when the inner type fails; positional: never fails
    open spec fn deser_defined(b: Seq<u8>, tag: Option<Tag>) -> bool { match tag { Some(_) => T::deser_defined(b, tag), None => true } }
    open spec fn deser_ok(b: Seq<u8>, tag: Option<Tag>, v: Self, k: int) -> bool {
        match tag {
            Some(_) => v matches Some(i) && T::deser_ok(b, tag, i, k),
            None => if T::deser_defined(b, None) { v matches Some(i) && T::deser_ok(b, None, i, k) } else { v is None && k == 0 },
        }
    }
    //@ fn src:zvt_builder/src/lib.rs | impl ZvtSerializerImpl<L,E,TE> for Option<T> | serialize_tagged | props=C03,C01 $M
    //@ end
    //@ fn src:zvt_builder/src/lib.rs | impl ZvtSerializerImpl<L,E,TE> for Option<T> | deserialize_tagged | props=C02,C14 $M
    //@ end
}

// ------------------------------------------------------------------ Vec<T>: every element tagged on its own
pub open spec fn vec_ser<T: ZvtSerializerImpl<L, E, TE>, L: length::Length, E: encoding::Encoding<T>, TE: encoding::Encoding<Tag>>(s: Seq<T>, tag: Option<Tag>) -> Seq<u8>
    decreases s.len()
{
    if s.len() == 0 { Seq::<u8>::empty() } else { vec_ser::<T, L, E, TE>(s.drop_last(), tag) + s.last().spec_ser_tagged(tag) }
}
impl<T, L: length::Length, E: encoding::Encoding<T>, TE: encoding::Encoding<Tag>>
    ZvtSerializerImpl<L, E, TE> for Vec<T>
where
    T: ZvtSerializerImpl<L, E, TE>,
{
    open spec fn ser_pre(&self, tag: Option<Tag>) -> bool { forall|i: int| 0 <= i < self@.len() ==> (#[trigger] self@[i]).ser_pre(tag) }
    open spec fn spec_ser_tagged(&self, tag: Option<Tag>) -> Seq<u8> { vec_ser::<T, L, E, TE>(self@, tag) }
    /// termination needs every round to consume a tag: elements must be tagged
    open spec fn deser_pre(tag: Option<Tag>) -> bool { T::deser_pre(tag) && T::deser_progresses(tag) }
    open spec fn deser_progresses(tag: Option<Tag>) -> bool { false }
    open spec fn functional() -> bool { $VFUNC }
    open spec fn deser_defined(b: Seq<u8>, tag: Option<Tag>) -> bool { true }
    /// element content is not specified at this level (see DESIGN.md: Vec combinator, partial)
    open spec fn deser_ok(b: Seq<u8>, tag: Option<Tag>, v: Self, k: int) -> bool { true }
    // `iter().flat_map(..).collect()` as the append loop it denotes (N20)
    //@ fn src:zvt_builder/src/lib.rs | impl ZvtSerializerImpl<L,E,TE> for Vec<T> | serialize_tagged | all-loops props=C03,C01 $M
    //@ loop 0
            invariant
                self.ser_pre(tag),
                iter.index@ <= self@.len(),
                __out@ =~= vec_ser::<T, L, E, TE>(self@.take(iter.index@ as int), tag),
    //@ before let mut__part=
            proof {
                // the next element extends the prefix by one
                let i = iter.index@ as int;
                assert(self@.take(i + 1).drop_last() =~= self@.take(i));
                assert(self@.take(i + 1).last() == self@[i]);
            }
    //@ tail
            proof { assert(self@.take(self@.len() as int) =~= self@); }
    //@ end
    //@ fn src:zvt_builder/src/lib.rs | impl ZvtSerializerImpl<L,E,TE> for Vec<T> | deserialize_tagged | all-loops props=C02,C14 $M
    //@ loop 0
            invariant
                T::deser_pre(tag), T::deser_progresses(tag),
                is_tail(bytes@, bytes0),
            decreases bytes@.len(),
    //@ entry
        let ghost bytes0 = bytes@;
    //@ end
}

// ------------------------------------------------------------------ packets: ZvtSerializer / ZvtParser
pub open spec fn ctrl_tag(class: u8, instr: u8) -> Tag { Tag((class as u16 * 256 + instr as u16) as u16) }

pub trait ZvtSerializer: ZvtSerializerImpl
where
    Self: Sized,
    encoding::Default: encoding::Encoding<Self>,
{
    spec fn zs_pre(&self) -> bool;
    /// the complete wire form of the packet
    spec fn zs_spec(&self) -> Seq<u8>;
    spec fn zd_pre() -> bool;
    spec fn zd_functional() -> bool;
    spec fn zd_defined(b: Seq<u8>) -> bool;
    spec fn zd_ok(b: Seq<u8>, v: Self, k: int) -> bool;
    //@ fn src:zvt_builder/src/lib.rs | trait ZvtSerializer | zvt_serialize | sig dropbody props=C03
    //@ tag zs.exact C03 C01
        requires self.zs_pre(),
        ensures r@ =~= self.zs_spec(),
    //@ end
    //@ fn src:zvt_builder/src/lib.rs | trait ZvtSerializer | zvt_deserialize | sig dropbody props=C02,C14
        requires Self::zd_pre(),
        ensures
    //@ tag zd.defined C01 C02
            Self::zd_functional() ==> (r is Ok <==> Self::zd_defined(bytes@)),
    //@ tag zd.frame C14
            r matches Ok((v, rest)) ==> is_tail(rest@, bytes@),
    //@ tag zd.ok C01 C14 C15
            Self::zd_functional() ==> (r matches Ok((v, rest)) ==> Self::zd_ok(bytes@, v, bytes@.len() - rest@.len())),
    //@ end
}

/// APDU: CLASS INSTR, APDU length, body
impl<T> ZvtSerializer for T
where
    Self: ZvtCommand
        + ZvtSerializerImpl<length::Adpu, encoding::Default, encoding::BigEndian>
        + ZvtSerializerImpl,
    encoding::Default: encoding::Encoding<Self>,
{
    open spec fn zs_pre(&self) -> bool {
        <Self as ZvtSerializerImpl<length::Adpu, encoding::Default, encoding::BigEndian>>::ser_pre(self, Some(ctrl_tag(Self::CLASS, Self::INSTR)))
    }
    open spec fn zs_spec(&self) -> Seq<u8> {
        <Self as ZvtSerializerImpl<length::Adpu, encoding::Default, encoding::BigEndian>>::spec_ser_tagged(self, Some(ctrl_tag(Self::CLASS, Self::INSTR)))
    }
    open spec fn zd_functional() -> bool {
        <Self as ZvtSerializerImpl<length::Adpu, encoding::Default, encoding::BigEndian>>::functional()
    }
    open spec fn zd_pre() -> bool {
        <Self as ZvtSerializerImpl<length::Adpu, encoding::Default, encoding::BigEndian>>::deser_pre(Some(ctrl_tag(Self::CLASS, Self::INSTR)))
    }
    open spec fn zd_defined(b: Seq<u8>) -> bool {
        <Self as ZvtSerializerImpl<length::Adpu, encoding::Default, encoding::BigEndian>>::deser_defined(b, Some(ctrl_tag(Self::CLASS, Self::INSTR)))
    }
    open spec fn zd_ok(b: Seq<u8>, v: Self, k: int) -> bool {
        <Self as ZvtSerializerImpl<length::Adpu, encoding::Default, encoding::BigEndian>>::deser_ok(b, Some(ctrl_tag(Self::CLASS, Self::INSTR)), v, k)
    }
    //@ fn src:zvt_builder/src/lib.rs | impl ZvtSerializer for T | zvt_serialize | props=C03 $M
    //@ end
    //@ fn src:zvt_builder/src/lib.rs | impl ZvtSerializer for T | zvt_deserialize | props=C02,C14 $M
    //@ end
}

//@ item src:zvt_builder/src/lib.rs | trait ZvtParser
