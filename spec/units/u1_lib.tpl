//@ item src:zvt_builder/src/lib.rs | enum ZVTError
//@ item src:zvt_builder/src/lib.rs | type ZVTResult
//@ item src:zvt_builder/src/lib.rs | struct Tag | derive=PartialEq,Eq,Clone,Structural
//@ item src:zvt_builder/src/lib.rs | trait ZvtCommand
