    use crate::{Path, PathBuf, HashMap, VMap, path_join, fs_exists, path_utf8, PacketTransport, VSource, VSink, VFiles, Result, ZVTError, IntoVErr, ZvtParser, ZvtSerializer, ACK_BYTES, data_block, disk, disk_reliable, wd_bytes};
    use crate::n6::*;
    use crate::std;
    // the source file's own `use` list is not extracted: these are the std names a (changed) body may use unqualified
    use crate::std::io::{Read, Seek, SeekFrom, Error, ErrorKind};
    use crate::std::os::unix::fs::FileExt;

    /// offset of the j-th packet boundary in the byte stream `b`
    pub open spec fn off(b: Seq<u8>, j: nat) -> int
        decreases j
    {
        if j == 0 { 0 } else {
            let o = off(b, (j - 1) as nat);
            o + (match apdu_total(b.skip(o)) { Some(t) => t, None => 0 })
        }
    }
    pub open spec fn pkt(b: Seq<u8>, i: nat) -> Option<WriteFileResponse> {
        WriteFileResponse::parse_spec(b.skip(off(b, i)).take(off(b, (i + 1) as nat) - off(b, i)))
    }
    pub open spec fn pkts(b: Seq<u8>, j: nat) -> Seq<WriteFileResponse> {
        Seq::new(j, |i: int| pkt(b, i as nat).unwrap())
    }
    /// a complete data request: file id and offset both present
    pub open spec fn req_of(p: WriteFileResponse) -> Option<(u8, u32)> {
        match p {
            WriteFileResponse::RequestForData(d) => match d.tlv {
                Some(t) => match t.file {
                    Some(f) => match (f.file_id, f.file_offset) { (Some(id), Some(o)) => Some((id, o)), _ => None },
                    None => None,
                },
                None => None,
            },
            _ => None,
        }
    }
    /// what the client writes in answer to the i-th packet: the requested block, or an acknowledgement for a final packet
    pub open spec fn answer(b: Seq<u8>, cb: nat, files: &VFiles, block: nat, i: nat) -> (Seq<u8>, nat) {
        let p = pkt(b, i).unwrap();
        let at = (cb + off(b, (i + 1) as nat)) as nat;
        match req_of(p) {
            Some((id, o)) => (data_block(files, id, o, block), at),
            None => (ACK_BYTES(), at),
        }
    }
    pub open spec fn answers(b: Seq<u8>, cb: nat, files: &VFiles, block: nat, j: nat) -> Seq<(Seq<u8>, nat)> {
        Seq::new(j, |i: int| answer(b, cb, files, block, i as nat))
    }
    pub open spec fn wf_state<S: VSource>(
        src: &PacketTransport<S>, sink: &VSink<WriteFileResponse>, cmd: Seq<u8>, files: &VFiles, block: nat,
        inbox0: Seq<u8>, c0: nat, w0: Seq<(Seq<u8>, nat)>, items0: Seq<WriteFileResponse>, j: nat,
    ) -> bool {
        let t0 = apdu_total(inbox0).unwrap();
        let b = inbox0.skip(t0);
        let cb = (c0 + t0) as nat;
        &&& apdu_total(inbox0) is Some
        &&& 0 <= off(b, j) <= b.len()
        &&& src.source.inbox() =~= b.skip(off(b, j))
        &&& src.source.consumed() == cb + off(b, j)
        &&& src.source.writes() =~= w0.push((cmd, c0)) + answers(b, cb, files, block, j)
        &&& sink.items() =~= items0 + pkts(b, j)
        &&& forall|i: nat| i < j ==> (#[trigger] pkt(b, i)) is Some
    }
    pub open spec fn is_final(p: WriteFileResponse) -> bool { p is CompletionData || p is Abort }
    /// every announced file is (still) there
    pub open spec fn files_exist(files: &VFiles) -> bool { forall|id: u8| files.paths().contains_key(id) ==> fs_exists(#[trigger] files.paths()[id]) }
    /// The positive direction (cf. `fails_for_cause` of the plain sequences): on a reliable connection and file system, with
    /// every announced file in place, an upload that has yielded j packets may end in an error only if what comes next - the
    /// acknowledgement of the command, otherwise the (j+1)-th packet - is missing, incomplete or undecodable, or if that packet
    /// is a data request without id or offset or for a file that was not announced.
    pub open spec fn wf_fails_for_cause(inbox0: Seq<u8>, j: nat, files: &VFiles) -> bool {
        match apdu_total(inbox0) {
            None => true,
            Some(t0) => if crate::Ack::parse_spec(inbox0.take(t0)) is None { true } else {
                let b = inbox0.skip(t0);
                ||| !(apdu_total(b.skip(off(b, j))) is Some && pkt(b, j) is Some)
                ||| (pkt(b, j) matches Some(p) && !is_final(p) && !(req_of(p) matches Some((id, o)) && files.paths().contains_key(id)))
            },
        }
    }

    /// the recognised payload files and their ids (Feig cVEND update manual as cited in the source; frozen table)
    pub open spec fn recognised() -> Seq<(Seq<char>, u8)> {
        seq![
            ("firmware/kernel.gz"@, 0x10u8),
            ("firmware/rootfs.gz"@, 0x11u8),
            ("firmware/components.tar.gz"@, 0x12u8),
            ("firmware/update.spec"@, 0x13u8),
            ("firmware/update_extended.spec"@, 0x14u8),
            ("app0/update.spec"@, 0x20u8),
            ("app0/update.tar.gz"@, 0x21u8),
            ("app1/update.spec"@, 0x22u8),
            ("app1/update.tar.gz"@, 0x23u8),
            ("app2/update.spec"@, 0x24u8),
            ("app2/update.tar.gz"@, 0x25u8),
            ("app3/update.spec"@, 0x26u8),
            ("app3/update.tar.gz"@, 0x27u8),
            ("app4/update.spec"@, 0x28u8),
            ("app4/update.tar.gz"@, 0x29u8),
            ("app5/update.spec"@, 0x30u8),
            ("app5/update.tar.gz"@, 0x31u8),
            ("app6/update.spec"@, 0x32u8),
            ("app6/update.tar.gz"@, 0x33u8),
            ("app7/update.spec"@, 0x34u8),
            ("app7/update.tar.gz"@, 0x35u8)
        ]
    }
    /// id -> full path of the first `j` table rows whose file exists below `dir`
    pub open spec fn dir_map(dir: Seq<char>, j: int) -> Map<u8, Seq<char>>
        decreases j
    {
        if j <= 0 { Map::<u8, Seq<char>>::empty() } else {
            let m = dir_map(dir, j - 1);
            let full = path_join(dir, recognised()[j - 1].0);
            if fs_exists(full) { m.insert(recognised()[j - 1].1, full) } else { m }
        }
    }
    //@ fn src:zvt/src/feig/sequences.rs | free | convert_dir | forslice all-loops props=C11
        requires
            // the directory name is valid Unicode (otherwise `into_string().unwrap()` panics; outside C11's quantifier)
            path_utf8(dir.text()),
        ensures
    //@ tag upload.table C11
            // exactly the recognised files that exist below the directory, under their ids, with their full paths
            r matches Ok(m) ==> m.paths() =~= dir_map(dir.text(), 21),
            // an error exactly when none of them exists
            r is Err <==> dir_map(dir.text(), 21) =~= Map::<u8, Seq<char>>::empty(),
    //@ loop 0
            invariant
                __i <= 21, __it@.len() == 21,
                path_utf8(dir.text()),
                forall|k: int| 0 <= k < 21 ==> (#[trigger] __it@[k]).0.text() == recognised()[k].0 && __it@[k].1 == recognised()[k].1 && path_utf8(__it@[k].0.text()),
    //@ tag upload.table.inv C11
                out.paths() =~= dir_map(dir.text(), __i as int),
            decreases 21 - __i,
    //@ end
    /// one announcement entry per recognised file, carrying its id and its true size and nothing else
    pub open spec fn manifest_ok(p: Seq<super::packets::tlv::File>, files: &VFiles) -> bool {
        forall|i: int| 0 <= i < p.len() ==> {
            let e = #[trigger] p[i];
            &&& e.file_id == Some(*files.listing()[i].0)
            &&& e.file_size == Some(disk(files.listing()[i].1@).len() as u32)
            &&& e.file_offset is None && e.payload is None
        }
    }
    /// first half of WriteFile::into_stream: everything in front of the statement that sends the announcement
    /// (`path` is a `PathBuf` in the source; `&path` derefs to the `&Path` that `convert_dir` takes)
    pub fn write_file_manifest(path: &Path, password: usize) -> (r: Result<(VFiles, super::packets::WriteFile)>)
        requires
            path_utf8(path.text()),
        ensures
    //@ tag upload.announce.table C11
            // ... and the map is exactly the recognised files that exist below the payload directory
            r matches Ok((files, packet)) ==> files.paths() =~= dir_map(path.text(), 21),
    //@ tag upload.announce C11
            // the announced list has exactly one entry per recognised file present (in the map's iteration order), with that
            // file's id and true size
            r matches Ok((files, packet)) ==> ({
                &&& packet.password == password
                &&& packet.tlv matches Some(t) && t.files@.len() == files.listing().len() && manifest_ok(t.files@, &files)
            }),
    //@ untag
    //@ fn src:zvt/src/feig/sequences.rs | impl WriteFile | into_stream | bodyonly macro=try_stream until-stmt=src.write_packet_with_ack append=Ok((files,~packet)) forlist all-loops props=C11
    //@ loop 0
            invariant
                manifest_ok(packets@, &files), packets@.len() == __i, __i <= __it@.len(), __it@ == files.listing(),
                decreases __it@.len() - __i,
    //@ end

    #[verifier::exec_allows_no_decreases_clause]
    pub fn write_file_exchange<Source: VSource>(packet: super::packets::WriteFile, adpu_size: u32, files: &VFiles, src: &mut PacketTransport<Source>, __sink: &mut VSink<WriteFileResponse>) -> (r: Result<()>)
        ensures
    //@ tag upload.ok C11 C05
            // normal end: every data request for an announced file was answered with exactly that id, that offset and the
            // file's bytes from the offset up to the block size or end of file (bit-identical to the disk), before it was
            // yielded and before the next packet was read; the final packet (completion/abort) was acknowledged; nothing
            // was read beyond it
            r is Ok ==> ({
                let j = (final(__sink).items().len() - old(__sink).items().len()) as nat;
                let b = old(src).source.inbox().skip(apdu_total(old(src).source.inbox()).unwrap());
                &&& j >= 1
                &&& wf_state::<Source>(final(src), final(__sink), packet.zs_spec(), files, adpu_size as nat, old(src).source.inbox(), old(src).source.consumed(), old(src).source.writes(), old(__sink).items(), j)
                &&& is_final(pkt(b, (j - 1) as nat).unwrap())
                &&& forall|i: nat| i + 1 < j ==> (req_of((#[trigger] pkt(b, i)).unwrap()) matches Some((id, o)) && files.paths().contains_key(id))
            }),
    //@ tag upload.err C11 C06
            // a request lacking id or offset, or naming a file that was not announced, ends the upload with an error and
            // NO data is sent for it; likewise nothing is written after a transport/codec failure
            r is Err ==> ({
                let j = (final(__sink).items().len() - old(__sink).items().len()) as nat;
                let w0 = old(src).source.writes();
                let c0 = old(src).source.consumed();
                let cmd = packet.zs_spec();
                ||| (j == 0 && final(src).source.writes() =~= w0.push((cmd, c0)) && final(__sink).items() =~= old(__sink).items())
                ||| ({
                    let t0 = apdu_total(old(src).source.inbox()).unwrap();
                    let b = old(src).source.inbox().skip(t0);
                    let cb = (c0 + t0) as nat;
                    &&& apdu_total(old(src).source.inbox()) is Some
                    &&& final(__sink).items() =~= old(__sink).items() + pkts(b, j)
                    &&& (final(src).source.writes() =~= w0.push((cmd, c0)) + answers(b, cb, files, adpu_size as nat, j)
                         || (final(src).source.writes() =~= w0.push((cmd, c0)) + answers(b, cb, files, adpu_size as nat, j + 1) && pkt(b, j) is Some
                             && (is_final(pkt(b, j).unwrap()) || (req_of(pkt(b, j).unwrap()) matches Some((id, o)) && files.paths().contains_key(id)))))
                    &&& forall|i: nat| i < j ==> (#[trigger] pkt(b, i)) is Some
                })
            }),
    //@ tag upload.fails_only_for_cause C11 C05
            final(src).source.reliable() == old(src).source.reliable(),
            (r is Err && old(src).source.reliable() && disk_reliable() && files_exist(files))
                ==> wf_fails_for_cause(old(src).source.inbox(), (final(__sink).items().len() - old(__sink).items().len()) as nat, files),
    //@ untag
    //@ fn src:zvt/src/feig/sequences.rs | impl WriteFile | into_stream | bodyonly macro=try_stream from-stmt=src.write_packet_with_ack yieldctx=src all-loops props=C11,C05,~C06
    //@ loop 0
            invariant_except_break
                forall|i: nat| i < (__sink.items().len() - items0.len()) ==> (req_of((#[trigger] pkt(inbox0.skip(apdu_total(inbox0).unwrap()), i)).unwrap()) matches Some((id, o)) && files.paths().contains_key(id)),
            invariant
                inbox0 == old(src).source.inbox(), c0 == old(src).source.consumed(), w0 == old(src).source.writes(),
                items0 == old(__sink).items(),
                buf@.len() == adpu_size,
                src.source.reliable() == old(src).source.reliable(),
                apdu_total(inbox0) matches Some(t0) && crate::Ack::parse_spec(inbox0.take(t0)) is Some,
                wf_state::<Source>(src, __sink, packet.zs_spec(), files, adpu_size as nat, inbox0, c0, w0, items0, (__sink.items().len() - items0.len()) as nat),
                __sink.items().len() >= items0.len(),
            ensures
                __sink.items().len() >= items0.len() + 1,
                is_final(pkt(inbox0.skip(apdu_total(inbox0).unwrap()), (__sink.items().len() - items0.len() - 1) as nat).unwrap()),
                forall|i: nat| i + 1 < (__sink.items().len() - items0.len()) ==> (req_of((#[trigger] pkt(inbox0.skip(apdu_total(inbox0).unwrap()), i)).unwrap()) matches Some((id, o)) && files.paths().contains_key(id)),
    //@ before src.write_packet(&packet)
        proof {
            assert(file.path@ == file_path@);
            assert(read_bytes <= buf@.len());
            assert(forall|i: int| 0 <= i < read_bytes ==> buf@[i] == disk(file_path@)[*file_offset as int + i]);
            if read_bytes > 0 {
                assert(*file_offset as int + read_bytes as int <= disk(file_path@).len());
                assert(buf@.subrange(0, read_bytes as int) =~= disk(file_path@).subrange(*file_offset as int, *file_offset as int + read_bytes as int));
            } else {
                assert(buf@.subrange(0, 0) =~= Seq::<u8>::empty());
            }
            assert(req_of(response) == Some((*file_id, *file_offset)));
            assert(file_path@ == files.paths()[*file_id]);
            assert(packet.zs_spec() == data_block(files, *file_id, *file_offset, adpu_size as nat));
        }
    //@ entry
        let ghost inbox0 = src.source.inbox();
        let ghost c0 = src.source.consumed();
        let ghost w0 = src.source.writes();
        let ghost items0 = __sink.items();
    //@ end
