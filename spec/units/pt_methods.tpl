    //@ fn src:zvt/src/io.rs | impl PacketTransport<S> | read_packet | $MODE props=C04,C02
        ensures
    //@ tag io.read.nowrite C04 C06
            final(self).source.writes() == old(self).source.writes(),
    //@ tag io.read.exact C04
            r matches Ok(p) ==> (apdu_total(old(self).source.inbox()) matches Some(tot)
                && final(self).source.inbox() =~= old(self).source.inbox().skip(tot)
                && final(self).source.consumed() == old(self).source.consumed() + tot
                && T::parse_spec(old(self).source.inbox().take(tot)) == Some(p)),
    //@ tag io.read.eof C04 C06
            apdu_total(old(self).source.inbox()) is None ==> r is Err,
    //@ tag io.read.undecodable C06
            (apdu_total(old(self).source.inbox()) matches Some(tot) && T::parse_spec(old(self).source.inbox().take(tot)) is None) ==> r is Err,
    //@ tag io.read.complete C04 C05
            // a complete, decodable packet at the head of the stream IS returned (unless the connection itself fails)
            final(self).source.reliable() == old(self).source.reliable(),
            (apdu_total(old(self).source.inbox()) matches Some(tot) && old(self).source.reliable() && T::parse_spec(old(self).source.inbox().take(tot)) is Some) ==> r is Ok,
    //@ include $GHOST
    //@ end

    //@ fn src:zvt/src/io.rs | impl PacketTransport<S> | write_packet | $MODE props=C04,C05
        ensures
    //@ tag io.write.exact C04 C05
            final(self).source.writes() == old(self).source.writes().push((msg.zs_spec(), old(self).source.consumed())),
            final(self).source.inbox() == old(self).source.inbox(),
            final(self).source.consumed() == old(self).source.consumed(),
    //@ tag io.write.complete C04 C05
            final(self).source.reliable() == old(self).source.reliable(),
            old(self).source.reliable() ==> r is Ok,
    //@ end

    //@ fn src:zvt/src/io.rs | impl PacketTransport<S> | read_packet_with_ack | $MODE props=C04,C05
        ensures
    //@ tag io.readack C05 C06
            r matches Ok(p) ==> (apdu_total(old(self).source.inbox()) matches Some(tot)
                && final(self).source.inbox() =~= old(self).source.inbox().skip(tot)
                && T::parse_spec(old(self).source.inbox().take(tot)) == Some(p)
                && final(self).source.writes() == old(self).source.writes().push((seq![0x80u8, 0x00u8, 0x00u8], (old(self).source.consumed() + tot) as nat))),
            // never acknowledge what could not be read or interpreted
            (apdu_total(old(self).source.inbox()) is None
                || (apdu_total(old(self).source.inbox()) matches Some(tot) && T::parse_spec(old(self).source.inbox().take(tot)) is None))
              ==> (r is Err && final(self).source.writes() == old(self).source.writes()),
    //@ tag io.readack.complete C05
            final(self).source.reliable() == old(self).source.reliable(),
            (apdu_total(old(self).source.inbox()) matches Some(tot) && old(self).source.reliable() && T::parse_spec(old(self).source.inbox().take(tot)) is Some) ==> r is Ok,
    //@ end

    //@ fn src:zvt/src/io.rs | impl PacketTransport<S> | write_packet_with_ack | $MODE props=C04,C05
        ensures
    //@ tag io.writeack.command_once C05 C06
            // the command is written exactly once, first, and nothing else is written
            final(self).source.writes() == old(self).source.writes().push((msg.zs_spec(), old(self).source.consumed())),
    //@ tag io.writeack.consumes_one_packet C04 C05
            // success means: exactly the one packet at the head of the stream was consumed - its header plus the announced
            // body, whatever it is - and that packet is a positive acknowledgement
            r is Ok ==> (apdu_total(old(self).source.inbox()) matches Some(tot)
                && final(self).source.inbox() =~= old(self).source.inbox().skip(tot)
                && final(self).source.consumed() == old(self).source.consumed() + tot
                && Ack::parse_spec(old(self).source.inbox().take(tot)) is Some),
    //@ tag io.writeack.not_ack_is_error C05 C06
            // anything but a positive acknowledgement is an error
            (apdu_total(old(self).source.inbox()) is None
                || (apdu_total(old(self).source.inbox()) matches Some(tot) && Ack::parse_spec(old(self).source.inbox().take(tot)) is None))
              ==> r is Err,
    //@ tag io.writeack.complete C05
            final(self).source.reliable() == old(self).source.reliable(),
            (apdu_total(old(self).source.inbox()) matches Some(tot) && old(self).source.reliable() && Ack::parse_spec(old(self).source.inbox().take(tot)) is Some) ==> r is Ok,
    //@ end
