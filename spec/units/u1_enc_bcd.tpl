    // ------------------------------------------------------------------ packed BCD (bcd_integrals! expansion)
    //@ item src:zvt_builder/src/encoding.rs | struct Bcd
    impl Encoding<u8> for Bcd {
        open spec fn enc_ok(v: &u8) -> bool { true }
        open spec fn canon(v: &u8) -> bool { true }
        /// most significant digit first, two digits per byte, no leading zero byte
        open spec fn spec_enc(v: &u8) -> Seq<u8> { bcd_rev(*v as nat).reverse() }
        /// whole input is digits; a value that does not fit u8 is an error
        open spec fn spec_dec(b: Seq<u8>) -> Option<(u8, int)> {
            match bcd_fold(b, b.len(), 0xff) { Some(v) => Some((v as u8, b.len() as int)), None => None }
        }
        open spec fn progresses() -> bool { false }
        //@ fn exp:zvt_builder | impl Encoding<u8> for Bcd | encode | mod=encoding all-loops props=C17,C03 $M
        //@ loop 0
                invariant rv@ + bcd_rev(k as nat) =~= bcd_rev(*input as nat),
                decreases k,
        //@ end
        //@ fn exp:zvt_builder | impl Encoding<u8> for Bcd | decode | mod=encoding all-loops n3=d props=C02,C17 $M
        //@ loop 0
                invariant bcd_fold(data@, iter.index@ as nat, 0xff) == Some(rv as nat),
        //@ end
        open spec fn self_delimiting() -> bool { false }
        open spec fn dec_rel(b: Seq<u8>, v: &u8, k: int) -> bool { true }
        open spec fn dec_total(b: Seq<u8>) -> bool { false }
        open spec fn dec_stop(rest: Seq<u8>) -> bool { true }
        open spec fn functional() -> bool { true }
        proof fn law_dec_bounds(b: Seq<u8>) {}
        proof fn law_dec_frame(b: Seq<u8>, s: Seq<u8>) {}
        //@ tag enc.law_inverse.bcd.u8 C17 C01
        proof fn law_inverse(v: &u8) {
            lemma_bcd_rev_msb(*v as nat);
            lemma_bcd_msb_val(*v as nat);
            let s = bcd_msb(*v as nat);
            assert(Self::spec_enc(v) =~= s);
            lemma_bcd_fold_val(s, s.len(), 0xff);
        }
        //@ untag
    }
    impl Encoding<u16> for Bcd {
        open spec fn enc_ok(v: &u16) -> bool { true }
        open spec fn canon(v: &u16) -> bool { true }
        /// most significant digit first, two digits per byte, no leading zero byte
        open spec fn spec_enc(v: &u16) -> Seq<u8> { bcd_rev(*v as nat).reverse() }
        /// whole input is digits; a value that does not fit u16 is an error
        open spec fn spec_dec(b: Seq<u8>) -> Option<(u16, int)> {
            match bcd_fold(b, b.len(), 0xffff) { Some(v) => Some((v as u16, b.len() as int)), None => None }
        }
        open spec fn progresses() -> bool { false }
        //@ fn exp:zvt_builder | impl Encoding<u16> for Bcd | encode | mod=encoding all-loops props=C17,C03 $M
        //@ loop 0
                invariant rv@ + bcd_rev(k as nat) =~= bcd_rev(*input as nat),
                decreases k,
        //@ end
        //@ fn exp:zvt_builder | impl Encoding<u16> for Bcd | decode | mod=encoding all-loops n3=d props=C02,C17 $M
        //@ loop 0
                invariant bcd_fold(data@, iter.index@ as nat, 0xffff) == Some(rv as nat),
        //@ end
        open spec fn self_delimiting() -> bool { false }
        open spec fn dec_rel(b: Seq<u8>, v: &u16, k: int) -> bool { true }
        open spec fn dec_total(b: Seq<u8>) -> bool { false }
        open spec fn dec_stop(rest: Seq<u8>) -> bool { true }
        open spec fn functional() -> bool { true }
        proof fn law_dec_bounds(b: Seq<u8>) {}
        proof fn law_dec_frame(b: Seq<u8>, s: Seq<u8>) {}
        //@ tag enc.law_inverse.bcd.u16 C17 C01
        proof fn law_inverse(v: &u16) {
            lemma_bcd_rev_msb(*v as nat);
            lemma_bcd_msb_val(*v as nat);
            let s = bcd_msb(*v as nat);
            assert(Self::spec_enc(v) =~= s);
            lemma_bcd_fold_val(s, s.len(), 0xffff);
        }
        //@ untag
    }
    impl Encoding<u32> for Bcd {
        open spec fn enc_ok(v: &u32) -> bool { true }
        open spec fn canon(v: &u32) -> bool { true }
        /// most significant digit first, two digits per byte, no leading zero byte
        open spec fn spec_enc(v: &u32) -> Seq<u8> { bcd_rev(*v as nat).reverse() }
        /// whole input is digits; a value that does not fit u32 is an error
        open spec fn spec_dec(b: Seq<u8>) -> Option<(u32, int)> {
            match bcd_fold(b, b.len(), 0xffff_ffff) { Some(v) => Some((v as u32, b.len() as int)), None => None }
        }
        open spec fn progresses() -> bool { false }
        //@ fn exp:zvt_builder | impl Encoding<u32> for Bcd | encode | mod=encoding all-loops props=C17,C03 $M
        //@ loop 0
                invariant rv@ + bcd_rev(k as nat) =~= bcd_rev(*input as nat),
                decreases k,
        //@ end
        //@ fn exp:zvt_builder | impl Encoding<u32> for Bcd | decode | mod=encoding all-loops n3=d props=C02,C17 $M
        //@ loop 0
                invariant bcd_fold(data@, iter.index@ as nat, 0xffff_ffff) == Some(rv as nat),
        //@ end
        open spec fn self_delimiting() -> bool { false }
        open spec fn dec_rel(b: Seq<u8>, v: &u32, k: int) -> bool { true }
        open spec fn dec_total(b: Seq<u8>) -> bool { false }
        open spec fn dec_stop(rest: Seq<u8>) -> bool { true }
        open spec fn functional() -> bool { true }
        proof fn law_dec_bounds(b: Seq<u8>) {}
        proof fn law_dec_frame(b: Seq<u8>, s: Seq<u8>) {}
        //@ tag enc.law_inverse.bcd.u32 C17 C01
        proof fn law_inverse(v: &u32) {
            lemma_bcd_rev_msb(*v as nat);
            lemma_bcd_msb_val(*v as nat);
            let s = bcd_msb(*v as nat);
            assert(Self::spec_enc(v) =~= s);
            lemma_bcd_fold_val(s, s.len(), 0xffff_ffff);
        }
        //@ untag
    }
    impl Encoding<u64> for Bcd {
        open spec fn enc_ok(v: &u64) -> bool { true }
        open spec fn canon(v: &u64) -> bool { true }
        /// most significant digit first, two digits per byte, no leading zero byte
        open spec fn spec_enc(v: &u64) -> Seq<u8> { bcd_rev(*v as nat).reverse() }
        /// whole input is digits; a value that does not fit u64 is an error
        open spec fn spec_dec(b: Seq<u8>) -> Option<(u64, int)> {
            match bcd_fold(b, b.len(), 0xffff_ffff_ffff_ffff) { Some(v) => Some((v as u64, b.len() as int)), None => None }
        }
        open spec fn progresses() -> bool { false }
        //@ fn exp:zvt_builder | impl Encoding<u64> for Bcd | encode | mod=encoding all-loops props=C17,C03 $M
        //@ loop 0
                invariant rv@ + bcd_rev(k as nat) =~= bcd_rev(*input as nat),
                decreases k,
        //@ end
        //@ fn exp:zvt_builder | impl Encoding<u64> for Bcd | decode | mod=encoding all-loops n3=d props=C02,C17 $M
        //@ loop 0
                invariant bcd_fold(data@, iter.index@ as nat, 0xffff_ffff_ffff_ffff) == Some(rv as nat),
        //@ end
        open spec fn self_delimiting() -> bool { false }
        open spec fn dec_rel(b: Seq<u8>, v: &u64, k: int) -> bool { true }
        open spec fn dec_total(b: Seq<u8>) -> bool { false }
        open spec fn dec_stop(rest: Seq<u8>) -> bool { true }
        open spec fn functional() -> bool { true }
        proof fn law_dec_bounds(b: Seq<u8>) {}
        proof fn law_dec_frame(b: Seq<u8>, s: Seq<u8>) {}
        //@ tag enc.law_inverse.bcd.u64 C17 C01
        proof fn law_inverse(v: &u64) {
            lemma_bcd_rev_msb(*v as nat);
            lemma_bcd_msb_val(*v as nat);
            let s = bcd_msb(*v as nat);
            assert(Self::spec_enc(v) =~= s);
            lemma_bcd_fold_val(s, s.len(), 0xffff_ffff_ffff_ffff);
        }
        //@ untag
    }
    impl Encoding<usize> for Bcd {
        open spec fn enc_ok(v: &usize) -> bool { true }
        open spec fn canon(v: &usize) -> bool { true }
        /// most significant digit first, two digits per byte, no leading zero byte
        open spec fn spec_enc(v: &usize) -> Seq<u8> { bcd_rev(*v as nat).reverse() }
        /// whole input is digits; a value that does not fit usize is an error
        open spec fn spec_dec(b: Seq<u8>) -> Option<(usize, int)> {
            match bcd_fold(b, b.len(), 0xffff_ffff_ffff_ffff) { Some(v) => Some((v as usize, b.len() as int)), None => None }
        }
        open spec fn progresses() -> bool { false }
        //@ fn exp:zvt_builder | impl Encoding<usize> for Bcd | encode | mod=encoding all-loops props=C17,C03 $M
        //@ loop 0
                invariant rv@ + bcd_rev(k as nat) =~= bcd_rev(*input as nat),
                decreases k,
        //@ end
        //@ fn exp:zvt_builder | impl Encoding<usize> for Bcd | decode | mod=encoding all-loops n3=d props=C02,C17 $M
        //@ loop 0
                invariant bcd_fold(data@, iter.index@ as nat, 0xffff_ffff_ffff_ffff) == Some(rv as nat),
        //@ end
        open spec fn self_delimiting() -> bool { false }
        open spec fn dec_rel(b: Seq<u8>, v: &usize, k: int) -> bool { true }
        open spec fn dec_total(b: Seq<u8>) -> bool { false }
        open spec fn dec_stop(rest: Seq<u8>) -> bool { true }
        open spec fn functional() -> bool { true }
        proof fn law_dec_bounds(b: Seq<u8>) {}
        proof fn law_dec_frame(b: Seq<u8>, s: Seq<u8>) {}
        //@ tag enc.law_inverse.bcd.usize C17 C01
        proof fn law_inverse(v: &usize) {
            lemma_bcd_rev_msb(*v as nat);
            lemma_bcd_msb_val(*v as nat);
            let s = bcd_msb(*v as nat);
            assert(Self::spec_enc(v) =~= s);
            lemma_bcd_fold_val(s, s.len(), 0xffff_ffff_ffff_ffff);
        }
        //@ untag
    }
