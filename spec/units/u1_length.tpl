    broadcast use {crate::frame::lemma_tail_intro, crate::frame::lemma_tail_elim, crate::frame::lemma_tail_refl, lemma_llv_bound_fits, lemma_or_f0_and_0f, lemma_and_0f_le};

    /// Contract of a length-prefix style (C16; used by C01, C03, C14).
    pub trait Length {
        /// type-level well-formedness (const parameters in range)
        spec fn wf() -> bool;
        /// false only for `Empty`: the style announces no length of its own
        spec fn delimiting() -> bool;
        /// lengths the style can represent
        spec fn ser_ok(len: usize) -> bool;
        /// the exact prefix for a representable length
        spec fn spec_ser(len: usize) -> Seq<u8>;
        /// reader: (announced length, number of prefix bytes consumed)
        spec fn spec_deser(b: Seq<u8>) -> Option<(usize, int)>;
        /// part of the prefix that the reader hands back as payload (only `Fixed` pads)
        spec fn spec_pad(len: usize) -> Seq<u8>;

        //@ fn src:zvt_builder/src/length.rs | trait Length | serialize | sig props=C16,C03
        //@ tag len.ser.exact C16 C03 ~C01
            requires Self::wf(), Self::ser_ok(len),
            ensures r@ =~= Self::spec_ser(len),
        //@ end
        //@ fn src:zvt_builder/src/length.rs | trait Length | deserialize | sig props=C02,C16
            requires Self::wf(),
            ensures
        //@ tag len.deser.ok C16 C14 ~C01
                Self::spec_deser(bytes@) matches Some((n, k)) ==> (r matches Ok((n2, rest)) && n2 == n && 0 <= k <= bytes@.len() && rest@ =~= bytes@.skip(k)),
        //@ tag len.deser.err C16 C02
                Self::spec_deser(bytes@) is None ==> r is Err,
        //@ end

        //@ tag len.law_inverse C16 C01
        /// prefix ++ payload ++ anything parses back to the payload (exactly that data)
        proof fn law_inverse(len: usize, p: Seq<u8>, s: Seq<u8>)
            requires Self::wf(), Self::ser_ok(len), p.len() == len, Self::delimiting() || s.len() == 0,
            ensures
                Self::spec_deser(Self::spec_ser(len) + p + s) matches Some((n, k))
                    && 0 <= k && k + n <= (Self::spec_ser(len) + p + s).len()
                    && (Self::spec_ser(len) + p + s).subrange(k, k + n) =~= Self::spec_pad(len) + p
                    && k + n == Self::spec_ser(len).len() + len;
        //@ tag len.law_frame C14 C16
        /// bytes behind the announced length do not influence the result
        proof fn law_frame(b: Seq<u8>, s: Seq<u8>)
            requires Self::wf(), Self::delimiting(), Self::spec_deser(b) is Some,
            ensures Self::spec_deser(b + s) == Self::spec_deser(b);
        //@ tag len.law_bounds C14
        proof fn law_bounds(b: Seq<u8>)
            requires Self::wf(),
            ensures Self::spec_deser(b) matches Some((n, k)) ==> 0 <= k <= b.len();
        //@ untag
    }

    // ------------------------------------------------------------------ Empty
    //@ item src:zvt_builder/src/length.rs | struct Empty
    impl Length for Empty {
        open spec fn wf() -> bool { true }
        open spec fn delimiting() -> bool { false }
        open spec fn ser_ok(len: usize) -> bool { true }
        open spec fn spec_ser(len: usize) -> Seq<u8> { Seq::<u8>::empty() }
        open spec fn spec_deser(b: Seq<u8>) -> Option<(usize, int)> { Some((b.len() as usize, 0)) }
        open spec fn spec_pad(len: usize) -> Seq<u8> { Seq::<u8>::empty() }
        //@ fn src:zvt_builder/src/length.rs | impl Length for Empty | serialize | props=C16,C03 $M
        //@ end
        //@ fn src:zvt_builder/src/length.rs | impl Length for Empty | deserialize | props=C02,C16 $M
        //@ end
        //@ tag len.law_inverse.Empty C16 C01
        proof fn law_inverse(len: usize, p: Seq<u8>, s: Seq<u8>) {
            assert(Self::spec_ser(len) + p + s =~= p);
        }
        proof fn law_bounds(b: Seq<u8>) {}
        //@ tag len.law_frame.Empty C14 C16
        proof fn law_frame(b: Seq<u8>, s: Seq<u8>) {}
        //@ untag
    }

    // ------------------------------------------------------------------ Fixed<N>
    //@ item src:zvt_builder/src/length.rs | struct Fixed
    impl<const N: usize> Length for Fixed<N> {
        open spec fn wf() -> bool { true }
        open spec fn delimiting() -> bool { true }
        open spec fn ser_ok(len: usize) -> bool { len <= N }
        /// left-padding with zero bytes up to the fixed width
        open spec fn spec_ser(len: usize) -> Seq<u8> { Seq::new((N - len) as nat, |i: int| 0u8) }
        open spec fn spec_deser(b: Seq<u8>) -> Option<(usize, int)> { if b.len() >= N { Some((N, 0)) } else { None } }
        open spec fn spec_pad(len: usize) -> Seq<u8> { Seq::new((N - len) as nat, |i: int| 0u8) }
        //@ fn src:zvt_builder/src/length.rs | impl Length for Fixed<N> | serialize | props=C16,C03 $M
        //@ end
        //@ fn src:zvt_builder/src/length.rs | impl Length for Fixed<N> | deserialize | props=C02,C16 $M
        //@ end
        //@ tag len.law_inverse.Fixed C16 C01
        proof fn law_inverse(len: usize, p: Seq<u8>, s: Seq<u8>) {
            let b = Self::spec_ser(len) + p + s;
            assert(b.subrange(0, N as int) =~= Self::spec_pad(len) + p);
        }
        proof fn law_bounds(b: Seq<u8>) {}
        //@ tag len.law_frame.Fixed C14 C16
        proof fn law_frame(b: Seq<u8>, s: Seq<u8>) {}
        //@ untag
    }

    // ------------------------------------------------------------------ Tlv
    //@ item src:zvt_builder/src/length.rs | struct Tlv
    impl Length for Tlv {
        open spec fn wf() -> bool { true }
        open spec fn delimiting() -> bool { true }
        open spec fn ser_ok(len: usize) -> bool { len <= 65535 }
        /// BER-TLV: one byte below 128, 0x81 n below 256, 0x82 hi lo up to 65535
        open spec fn spec_ser(len: usize) -> Seq<u8> {
            if len < 128 { seq![len as u8] }
            else if len < 256 { seq![0x81u8, len as u8] }
            else { seq![0x82u8] + be_seq2(len as nat) }
        }
        open spec fn spec_deser(b: Seq<u8>) -> Option<(usize, int)> {
            if b.len() == 0 { None }
            else if b[0] <= 127 { Some((b[0] as usize, 1)) }
            else if b[0] == 0x81 { if b.len() >= 2 { Some((b[1] as usize, 2)) } else { None } }
            else if b[0] == 0x82 { if b.len() >= 3 { Some((be_val2(b.subrange(1, 3)) as usize, 3)) } else { None } }
            else { None }
        }
        open spec fn spec_pad(len: usize) -> Seq<u8> { Seq::<u8>::empty() }
        //@ fn src:zvt_builder/src/length.rs | impl Length for Tlv | serialize | props=C16,C03 $M
        //@ end
        //@ fn src:zvt_builder/src/length.rs | impl Length for Tlv | deserialize | props=C02,C16 $M
        //@ end
        //@ tag len.law_inverse.Tlv C16 C01
        proof fn law_inverse(len: usize, p: Seq<u8>, s: Seq<u8>) {
            let pre = Self::spec_ser(len);
            let b = pre + p + s;
            if len >= 256 {
                assert(b.subrange(1, 3) =~= be_seq2(len as nat));
                lemma_be2_inv(len as nat);
            }
            assert(b.subrange(pre.len() as int, pre.len() + len) =~= p);
        }
        proof fn law_bounds(b: Seq<u8>) {}
        //@ tag len.law_frame.Tlv C14 C16
        proof fn law_frame(b: Seq<u8>, s: Seq<u8>) {
            if b.len() >= 3 { assert((b + s).subrange(1, 3) =~= b.subrange(1, 3)); }
        }
        //@ untag
    }

    //@ tag len.shortest.Tlv C16
    /// no accepted prefix for a length is shorter than the one the writer emits
    pub proof fn lemma_tlv_shortest(b: Seq<u8>, len: usize)
        requires Tlv::spec_deser(b) matches Some((n, k)) && n == len,
        ensures Tlv::spec_deser(b).unwrap().1 >= Tlv::spec_ser(len).len(),
    {
    }
    /// distinct lengths get distinct prefixes (the writer is injective)
    pub proof fn lemma_tlv_injective(a: usize, b: usize)
        requires a <= 65535, b <= 65535, Tlv::spec_ser(a) =~= Tlv::spec_ser(b),
        ensures a == b,
    {
        let x = Tlv::spec_ser(a); let y = Tlv::spec_ser(b);
        assert(x.len() == y.len());
        assert(x[0] == y[0]);
        if a >= 256 { assert(x[1] == y[1]); assert(x[2] == y[2]); }
        else if a >= 128 { assert(x[1] == y[1]); }
    }
    //@ untag

    // ------------------------------------------------------------------ LlvImpl<N>
    //@ item src:zvt_builder/src/length.rs | struct LlvImpl
    /// value read from the first j bytes, low nibbles as decimal digits, most significant first
    pub open spec fn llv_val(b: Seq<u8>, j: nat) -> nat
        decreases j
    {
        if j == 0 { 0 } else { llv_val(b, (j - 1) as nat) * 10 + (b[j - 1] & 0xf) as nat }
    }
    impl<const N: usize> Length for LlvImpl<N> {
        open spec fn wf() -> bool { N <= 19 }
        open spec fn delimiting() -> bool { true }
        open spec fn ser_ok(len: usize) -> bool { (len as nat) < pow10(N as nat) }
        /// N bytes, byte m carries decimal digit 10^(N-1-m) of the length in its low nibble, high nibble F
        open spec fn spec_ser(len: usize) -> Seq<u8> {
            Seq::new(N as nat, |m: int| 0xf0u8 | ((div10n(len as nat, (N - 1 - m) as nat) % 10) as u8))
        }
        open spec fn spec_deser(b: Seq<u8>) -> Option<(usize, int)> {
            if b.len() >= N { Some((llv_val(b, N as nat) as usize, N as int)) } else { None }
        }
        open spec fn spec_pad(len: usize) -> Seq<u8> { Seq::<u8>::empty() }
        //@ fn src:zvt_builder/src/length.rs | impl Length for LlvImpl<N> | serialize | all-loops props=C16,C03 $M
        //@ loop 0
                invariant
                    rv@.len() == N, __lo == 0, __hi <= N,
                    k as nat == div10n(input as nat, (N - __hi) as nat),
                    forall|m: int| __hi <= m < N ==> rv@[m] == 0xf0u8 | ((div10n(input as nat, (N - 1 - m) as nat) % 10) as u8),
                decreases __hi,
        //@ end
        //@ fn src:zvt_builder/src/length.rs | impl Length for LlvImpl<N> | deserialize | all-loops n3=d props=C02,C16 $M
        //@ loop 0
                invariant
                    N <= 19, iter.index@ <= data@.len(),
                    rv as nat == llv_val(data@, iter.index@ as nat),
                    rv as nat * 10 + 15 <= llv_bound((iter.index@ + 1) as nat),
        //@ end
        //@ tag len.law_inverse.Llv C16 C01
        proof fn law_inverse(len: usize, p: Seq<u8>, s: Seq<u8>) {
            let pre = Self::spec_ser(len);
            let b = pre + p + s;
            lemma_llv_roundtrip(b, len as nat, N as nat, N as nat);
            lemma_div10n_pow10(len as nat, N as nat);
            assert(div10n(len as nat, N as nat) == 0) by {
                vstd::arithmetic::div_mod::lemma_basic_div(len as int, pow10(N as nat) as int);
            }
            assert(b.subrange(N as int, N + len) =~= p);
        }
        proof fn law_bounds(b: Seq<u8>) {}
        //@ tag len.law_frame.Llv C14 C16
        proof fn law_frame(b: Seq<u8>, s: Seq<u8>) {
            lemma_llv_val_prefix(b, b + s, N as nat);
        }
        //@ untag
    }
    //@ item src:zvt_builder/src/length.rs | type Llv
    //@ item src:zvt_builder/src/length.rs | type Lllv

    //@ tag len.lemmas.Llv C16
    pub proof fn lemma_llv_val_prefix(a: Seq<u8>, b: Seq<u8>, j: nat)
        requires j <= a.len(), a.len() <= b.len(), forall|i: int| 0 <= i < j ==> a[i] == b[i],
        ensures llv_val(a, j) == llv_val(b, j),
        decreases j
    {
        if j > 0 { lemma_llv_val_prefix(a, b, (j - 1) as nat); }
    }
    /// reading the first j digit bytes of a written length gives len / 10^(n-j) - rest*10^j, stated via div10n
    pub proof fn lemma_llv_roundtrip(b: Seq<u8>, len: nat, n: nat, j: nat)
        requires
            j <= n, n <= b.len(),
            forall|m: int| 0 <= m < n ==> b[m] == 0xf0u8 | ((div10n(len, (n - 1 - m) as nat) % 10) as u8),
        ensures
            llv_val(b, j) + div10n(len, n) * pow10(j) == div10n(len, (n - j) as nat),
        decreases j
    {
        if j == 0 {
            assert(pow10(0) == 1);
            assert(div10n(len, n) * 1 == div10n(len, n)) by (nonlinear_arith);
        } else {
            lemma_llv_roundtrip(b, len, n, (j - 1) as nat);
            let d = (div10n(len, (n - j) as nat) % 10) as u8;
            assert(b[j - 1] == 0xf0u8 | d);
            assert((0xf0u8 | d) & 0xf == d) by (bit_vector) requires d < 16;
            let x = div10n(len, (n - j) as nat);
            assert(div10n(len, (n - j + 1) as nat) == x / 10);
            let q = div10n(len, n);
            let pj = pow10((j - 1) as nat);
            assert(pow10(j) == 10 * pj);
            // llv_val(b, j-1) + q*pj == x/10  ==> llv_val(b,j) = (x/10 - q*pj)*10 + x%10
            assert((x / 10 - q * pj) * 10 + x % 10 + q * (10 * pj) == x) by (nonlinear_arith);
        }
    }
    /// LLVAR (N = 2) and LLLVAR (N = 3) written out
    pub proof fn lemma_llv_forms(len: usize)
        ensures
            len < 100 ==> Llv::spec_ser(len) =~= seq![0xf0u8 | ((len / 10) as u8), 0xf0u8 | ((len % 10) as u8)],
            len < 1000 ==> Lllv::spec_ser(len) =~= seq![0xf0u8 | ((len / 100) as u8), 0xf0u8 | ((len / 10 % 10) as u8), 0xf0u8 | ((len % 10) as u8)],
            Llv::ser_ok(len) <==> len < 100,
            Lllv::ser_ok(len) <==> len < 1000,
    {
        reveal_with_fuel(div10n, 4);
        reveal_with_fuel(pow10, 4);
    }
    //@ untag

    // ------------------------------------------------------------------ Adpu
    //@ item src:zvt_builder/src/length.rs | struct Adpu
    impl Length for Adpu {
        open spec fn wf() -> bool { true }
        open spec fn delimiting() -> bool { true }
        open spec fn ser_ok(len: usize) -> bool { len <= 65535 }
        /// APDU: one byte below 255, otherwise 0xff followed by the length little-endian
        open spec fn spec_ser(len: usize) -> Seq<u8> {
            adpu_ser(len as nat)
        }
        open spec fn spec_deser(b: Seq<u8>) -> Option<(usize, int)> {
            if b.len() == 0 { None }
            else if b[0] == 0xff { if b.len() >= 3 { Some((le_val2(b.subrange(1, 3)) as usize, 3)) } else { None } }
            else { Some((b[0] as usize, 1)) }
        }
        open spec fn spec_pad(len: usize) -> Seq<u8> { Seq::<u8>::empty() }
        //@ fn src:zvt_builder/src/length.rs | impl Length for Adpu | serialize | also=C04 props=C16,C03,C04 $M
        //@ end
        //@ fn src:zvt_builder/src/length.rs | impl Length for Adpu | deserialize | also=C04 props=C02,C16 $M
        //@ end
        //@ tag len.law_inverse.Adpu C16 C01 C04
        proof fn law_inverse(len: usize, p: Seq<u8>, s: Seq<u8>) {
            let pre = Self::spec_ser(len);
            let b = pre + p + s;
            if len >= 255 {
                assert(adpu_ser(len as nat) =~= seq![0xffu8] + le_seq2(len as nat));
                assert(b.subrange(1, 3) =~= le_seq2(len as nat));
                lemma_le2_inv(len as nat);
            }
            assert(b.subrange(pre.len() as int, pre.len() + len) =~= p);
        }
        proof fn law_bounds(b: Seq<u8>) {}
        //@ tag len.law_frame.Adpu C14 C16
        proof fn law_frame(b: Seq<u8>, s: Seq<u8>) {
            if b.len() >= 3 { assert((b + s).subrange(1, 3) =~= b.subrange(1, 3)); }
        }
        //@ untag
    }
    //@ tag len.shortest.Adpu C16
    pub proof fn lemma_adpu_injective(a: usize, b: usize)
        requires a <= 65535, b <= 65535, Adpu::spec_ser(a) =~= Adpu::spec_ser(b),
        ensures a == b,
    {
        let x = Adpu::spec_ser(a); let y = Adpu::spec_ser(b);
        assert(x.len() == y.len());
        assert(x[0] == y[0]);
        if a >= 255 { assert(x[1] == y[1]); assert(x[2] == y[2]); assert(a == (a % 256) + 256 * ((a / 256) % 256)); assert(b == (b % 256) + 256 * ((b / 256) % 256)); }
    }
    //@ untag
