#!/usr/bin/env python3
"""Generates spec/units/u1_enc_ints.tpl: contracts for the macro-generated
integral encodings (encode_integral! x10). One-off helper; output is committed."""
types=[('u8',1,'0x100'),('u16',2,'0x1_0000'),('u32',4,'0x1_0000_0000'),('u64',8,'0x1_0000_0000_0000_0000'),('usize',8,'0x1_0000_0000_0000_0000')]
out=[]
for marker,order,desc in (('Default','le','little endian'),('BigEndian','be','big endian')):
    out.append(f"    // ------------------------------------------------------------------ {desc} integers (encode_integral! expansion)")
    for t,n,lim in types:
        out.append(f'''    impl Encoding<{t}> for {marker} {{
        open spec fn enc_ok(v: &{t}) -> bool {{ true }}
        open spec fn canon(v: &{t}) -> bool {{ true }}
        /// {n} byte(s), {desc}
        open spec fn spec_enc(v: &{t}) -> Seq<u8> {{ {order}_seq{n}(*v as nat) }}
        open spec fn spec_dec(b: Seq<u8>) -> Option<({t}, int)> {{ if b.len() < {n} {{ None }} else {{ Some(({order}_val{n}(b.subrange(0, {n})) as {t}, {n})) }} }}
        open spec fn progresses() -> bool {{ true }}
        //@ fn exp:zvt_builder | impl Encoding<{t}> for {marker} | encode | mod=encoding props=C17,C03 $M
        //@ end
        //@ fn exp:zvt_builder | impl Encoding<{t}> for {marker} | decode | mod=encoding props=C02,C17 $M
        //@ end
        open spec fn self_delimiting() -> bool {{ true }}
        open spec fn dec_rel(b: Seq<u8>, v: &{t}, k: int) -> bool {{ true }}
        open spec fn dec_total(b: Seq<u8>) -> bool {{ false }}
        open spec fn dec_stop(rest: Seq<u8>) -> bool {{ true }}
        open spec fn functional() -> bool {{ true }}
        proof fn law_dec_bounds(b: Seq<u8>) {{}}
        //@ tag enc.law_dec_frame.{order}.{t} C14
        proof fn law_dec_frame(b: Seq<u8>, s: Seq<u8>) {{
            assert((b + s).subrange(0, {n}) =~= b.subrange(0, {n}));
        }}
        //@ tag enc.law_inverse.{order}.{t} C17 C01
        proof fn law_inverse(v: &{t}) {{
            lemma_{order}{n}_inv(*v as nat);
            assert({order}_seq{n}(*v as nat).subrange(0, {n}) =~= {order}_seq{n}(*v as nat));
        }}
        //@ untag
    }}''')
open('/verif/spec/units/u1_enc_ints.tpl','w').write('\n'.join(out)+'\n')
