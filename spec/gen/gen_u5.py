#!/usr/bin/env python3
"""spec/tables/terminal.json -> spec/units/u5_all.tpl (one include line per sequence)."""
import json
t=json.load(open('/verif/spec/tables/terminal.json'))
out=[]
seen=set()
for s in t['loop_sequences']:
    if s['reply'] not in seen:
        seen.add(s['reply'])
        out.append("//@ include u5_reply.tpl REPLY=%s FILE=%s" % (s['reply'], s['file']))
    term="~||~".join("p~is~%s" % v for v in s['terminal'])
    out.append("//@ include u5_seq_loop.tpl NAME=%s REPLY=%s FILE=%s TERM=%s" % (s['name'], s['reply'], s['file'], term))
for s in t['single_reply_sequences']:
    # the reply enums of the single-reply sequences are not needed: the default body is generic in the reply type
    out.append("//@ assert-no-fn %s | impl Sequence for %s | into_stream" % (s['file'], s['name']))
open('/verif/spec/units/u5_all.tpl','w').write("\n".join(out)+"\n")
