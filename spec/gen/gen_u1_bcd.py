#!/usr/bin/env python3
"""Generates spec/units/u1_enc_bcd.tpl: contracts for bcd_integrals! x5."""
types=[('u8','0xff'),('u16','0xffff'),('u32','0xffff_ffff'),('u64','0xffff_ffff_ffff_ffff'),('usize','0xffff_ffff_ffff_ffff')]
out=["    // ------------------------------------------------------------------ packed BCD (bcd_integrals! expansion)",
     "    //@ item src:zvt_builder/src/encoding.rs | struct Bcd"]
for t,mx in types:
    out.append(f'''    impl Encoding<{t}> for Bcd {{
        open spec fn enc_ok(v: &{t}) -> bool {{ true }}
        open spec fn canon(v: &{t}) -> bool {{ true }}
        /// most significant digit first, two digits per byte, no leading zero byte
        open spec fn spec_enc(v: &{t}) -> Seq<u8> {{ bcd_rev(*v as nat).reverse() }}
        /// whole input is digits; a value that does not fit {t} is an error
        open spec fn spec_dec(b: Seq<u8>) -> Option<({t}, int)> {{
            match bcd_fold(b, b.len(), {mx}) {{ Some(v) => Some((v as {t}, b.len() as int)), None => None }}
        }}
        open spec fn progresses() -> bool {{ false }}
        //@ fn exp:zvt_builder | impl Encoding<{t}> for Bcd | encode | mod=encoding all-loops props=C17,C03 $M
        //@ loop 0
                invariant rv@ + bcd_rev(k as nat) =~= bcd_rev(*input as nat),
                decreases k,
        //@ end
        //@ fn exp:zvt_builder | impl Encoding<{t}> for Bcd | decode | mod=encoding all-loops n3=d props=C02,C17 $M
        //@ loop 0
                invariant bcd_fold(data@, iter.index@ as nat, {mx}) == Some(rv as nat),
        //@ end
        open spec fn self_delimiting() -> bool {{ false }}
        open spec fn dec_rel(b: Seq<u8>, v: &{t}, k: int) -> bool {{ true }}
        open spec fn dec_total(b: Seq<u8>) -> bool {{ false }}
        open spec fn dec_stop(rest: Seq<u8>) -> bool {{ true }}
        open spec fn functional() -> bool {{ true }}
        proof fn law_dec_bounds(b: Seq<u8>) {{}}
        proof fn law_dec_frame(b: Seq<u8>, s: Seq<u8>) {{}}
        //@ tag enc.law_inverse.bcd.{t} C17 C01
        proof fn law_inverse(v: &{t}) {{
            lemma_bcd_rev_msb(*v as nat);
            lemma_bcd_msb_val(*v as nat);
            let s = bcd_msb(*v as nat);
            assert(Self::spec_enc(v) =~= s);
            lemma_bcd_fold_val(s, s.len(), {mx});
        }}
        //@ untag
    }}''')
open('/verif/spec/units/u1_enc_bcd.tpl','w').write('\n'.join(out)+'\n')
