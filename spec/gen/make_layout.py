#!/usr/bin/env python3
"""One-off: transcribe the layout table from the attributes at the pinned commit and FREEZE it
(spec/tables/layout.json). The table, not the attributes, is the oracle afterwards: any later change
of an attribute, field order or type diverges from it and fails the C03 clause."""
import re, json, sys
FILES=[('packets','zvt/src/packets.rs'),('packets::tlv','zvt/src/packets/tlv.rs'),('feig::packets','zvt/src/feig/packets/mod.rs'),('feig::packets::tlv','zvt/src/feig/packets/tlv.rs')]
def num(x):
    x=x.strip()
    return int(x,16) if x.lower().startswith('0x') else int(x)
structs=[]
for mod,f in FILES:
    src=open('/repo/'+f).read()
    src=src.split('#[cfg(test)]')[0]
    for m in re.finditer(r'((?:#\[[^\]]*\]\s*)+)pub struct (\w+)\s*\{(.*?)\n?\}', src, re.S):
        attrs,name,body=m.groups()
        if 'Zvt' not in attrs: continue
        cf=re.search(r'zvt_control_field\(class\s*=\s*(\w+),\s*instr\s*=\s*(\w+)\)',attrs)
        fields=[]
        for fm in re.finditer(r'((?:\s*(?://[^\n]*\n|#\[[^\]]*\]))*)\s*(?:pub\s+)?(\w+):\s*([^,\n]+),', body):
            fattrs,fname,fty=fm.groups()
            e={'name':fname,'type':fty.strip(),'tag':None,'length':'length::Empty','encoding':'encoding::Default'}
            b=re.search(r'zvt_bmp\((.*?)\)\]',fattrs,re.S)
            t=re.search(r'zvt_tlv\((.*?)\)\]',fattrs,re.S)
            if b:
                a=b.group(1)
                n=re.search(r'number\s*=\s*(\w+)',a); l=re.search(r'length\s*=\s*([\w:<>]+)',a); en=re.search(r'encoding\s*=\s*([\w:]+)',a)
                if n: e['tag']=num(n.group(1))
                if l: e['length']=l.group(1)
                if en: e['encoding']=en.group(1)
            if t:
                a=t.group(1)
                n=re.search(r'tag\s*=\s*(\w+)',a); en=re.search(r'encoding\s*=\s*([\w:]+)',a)
                e['tag']=num(n.group(1)); e['length']='length::Tlv'
                if en: e['encoding']=en.group(1)
            fields.append(e)
        structs.append({'module':mod,'name':name,'control':[num(cf.group(1)),num(cf.group(2))] if cf else None,'fields':fields})
json.dump({'_source':'ZVT 13.11 BMP/TLV tables and Feig cVEND manual sections cited in the source comments; transcribed from the attributes at the pinned commit (cross-checked by the 25 captured blobs the test-suite decodes) and frozen','structs':structs}, open('/verif/spec/tables/layout.json','w'), indent=1)
print(len(structs),'structs', sum(len(s['fields']) for s in structs),'fields')
