#!/usr/bin/env python3
"""spec/tables/replies.json -> spec/units/u3_gen.tpl (reply-enum contracts, C15)."""
import json
t=json.load(open('/verif/spec/tables/replies.json'))
P=t['packets']
def modpath(m): return m
out=[]
# abstract packet decoders + real control-field constants
def pkt_impls(prefix, names, expmod):
    o=[]
    for full in names:
        short=full.split('::')[-1]
        o.append(f"    //@ item exp:zvt | impl zvt_builder::ZvtCommand for {short} | mod={expmod}")
        o.append(f"""    impl zvt_builder::ZvtSerializer for {short} {{
        uninterp spec fn zd_ok(b: Seq<u8>, v: Self) -> bool;
        #[verifier::external_body]
        fn zvt_deserialize(bytes: &[u8]) -> (r: zvt_builder::ZVTResult<(Self, &[u8])>) {{ unimplemented!() }}
    }}""")
    return o
def ser_impls(names):
    o=[]
    for k,full in enumerate(names):
        short=full.split('::')[-1]
        o.append(f"""    impl zvt_builder::ZvtSerializer for {short} {{
        /// identity of the packet type (position in the frozen reply table), so that "which type does this variant
        /// carry" is an obligation instead of a type error
        open spec fn tid() -> int {{ {k} }}
        uninterp spec fn zd_ok(b: Seq<u8>, v: Self) -> bool;
        uninterp spec fn zd_defined(b: Seq<u8>) -> bool;
        #[verifier::external_body]
        fn zvt_deserialize(bytes: &[u8]) -> (r: zvt_builder::ZVTResult<(Self, &[u8])>) {{ unimplemented!() }}
    }}""")
    return o
def cmd_impls(names):
    o=["    // control-field constants: rustc's expansion of #[zvt_control_field]. Verus exposes the value of an",
       "    // associated const only inside the module of its impl, hence the impls are placed next to their users."]
    for full in names:
        short=full.split('::')[-1]
        expmod='feig::packets' if full.startswith('feig::') else 'packets'
        o.append(f"    //@ item exp:zvt | impl zvt_builder::ZvtCommand for {short} | mod={expmod} selfty=crate::packets::{short}")
    return o
allp=list(P.keys())
# packet types outside every reply set: they exist so that naming one of them in a reply enum is an obligation
# (its identity is none of the table's) instead of a compile error
others=t.get('other_packets',[])
open('/verif/spec/units/u3_pk_ser.tpl','w').write("\n".join(ser_impls(allp+others))+"\n")
open('/verif/spec/units/u3_cmd_io.tpl','w').write("\n".join(cmd_impls(['packets::Ack']))+"\n")
open('/verif/spec/units/u3_cmd_seqs.tpl','w').write("\n".join(cmd_impls([k for k in allp+others if k!='packets::Ack']))+"\n")
bymod={}
for e in t['enums']:
    bymod.setdefault(e['mod'],[]).append(e)
srcfile={'io':'src:zvt/src/io.rs','sequences':'src:zvt/src/sequences.rs','feig::sequences':'src:zvt/src/feig/sequences.rs'}
for m,enums in bymod.items():
    o=[]
    for e in enums:
        name=e['name']
        def tyref(ty):
            # how the type is named from inside module m
            return 'crate::packets::'+ty.split('::')[-1]
        arms=[]; known=[]; defined=[]
        for v,ty in e['variants']:
            c,i=P[ty]
            arms.append(f"                Self::{v}(x) => b.len() >= 2 && b[0] == {c} && b[1] == {i} && zvt_builder::tid_of(x) == {allp.index(ty)} /* {ty} */ && zvt_builder::zd_ok_of(b, x),")
            known.append(f"(c == {c} && i == {i})")
            defined.append(f"(b[0] == {c} && b[1] == {i} && <{tyref(ty)} as zvt_builder::ZvtSerializer>::zd_defined(b))")
        o.append(f"""    // ------------------------------------------------------------------ {name}
    //@ item {srcfile[m]} | enum {name}
    impl zvt_builder::ZvtParser for {name} {{
        /// a variant is returned only for its own control field, with what its packet type decodes on its own
        open spec fn parse_ok(b: Seq<u8>, v: Self) -> bool {{
            match v {{
{chr(10).join(arms)}
                // a variant the frozen reply table does not know can never be a correct result
                #[allow(unreachable_patterns)]
                _ => false,
            }}
        }}
        /// the command's reply set
        open spec fn ctrl_known(c: u8, i: u8) -> bool {{ {' || '.join(known)} }}
        /// a packet of the reply set (an APDU has at least its three header bytes) that its own packet type decodes is accepted
        open spec fn parse_defined(b: Seq<u8>) -> bool {{ b.len() >= 3 && ({' || '.join(defined)}) }}
        //@ fn exp:zvt | impl zvt_builder::ZvtParser for {name} | zvt_parse | mod={m} props=C15,C02
        //@ end
    }}""")
    open('/verif/spec/units/u3_enums_%s.tpl' % m.replace('::','_'),'w').write("\n".join(o)+"\n")
