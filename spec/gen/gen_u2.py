#!/usr/bin/env python3
"""spec/tables/layout.json -> spec/units/u2_<module>.tpl : contracts for every derive(Zvt) expansion."""
import json
t=json.load(open('/verif/spec/tables/layout.json'))
MODS={'packets':'src:zvt/src/packets.rs','packets::tlv':'src:zvt/src/packets/tlv.rs','feig::packets':'src:zvt/src/feig/packets/mod.rs','feig::packets::tlv':'src:zvt/src/feig/packets/tlv.rs'}
NEED_DEFAULT={'SystemInformation','ChangeConfiguration','String','usize'}
def tagopt(f):
    return 'None' if f['tag'] is None else 'Some(zvt_builder::Tag(%du16))' % f['tag']
def fty(f):
    return '<%s as zvt_builder::ZvtSerializerImpl<%s, %s, zvt_builder::encoding::Default>>' % (f['type'], f['length'], f['encoding'])
by={}
for s in t['structs']:
    by.setdefault(s['module'],[]).append(s)
for mod,structs in by.items():
    out=[]
    ser=[]
    for s in structs:
        n=s['name']; fs=s['fields']
        lay=' + '.join('%s::spec_ser_tagged(&v.%s, %s)' % (fty(f), f['name'], tagopt(f)) for f in fs) or 'Seq::<u8>::empty()'
        pre=' && '.join('%s::ser_pre(&v.%s, %s)' % (fty(f), f['name'], tagopt(f)) for f in fs) or 'true'
        tagged=[f for f in fs if f['tag'] is not None]
        reqt=[f['tag'] for f in tagged if not (f['type'].startswith('Option<') or f['type'].startswith('Vec<'))]
        req=('set![' + ', '.join('%du16' % x for x in reqt) + ']') if reqt else 'Set::<u16>::empty()'
        nonvec=[f['tag'] for f in tagged if not f['type'].startswith('Vec<')]
        stop='rest.len() == 0 || (match <zvt_builder::encoding::Default as zvt_builder::encoding::Encoding<zvt_builder::Tag>>::spec_dec(rest) { None => true, Some((t, _)) => ' + (' && '.join('t.0 != %du16' % x for x in nonvec) or 'true') + ' })'
        def vec_hint(f):
            if not f['type'].startswith('Vec<'): return ''
            return f"""            let ghost b_pre = bytes@;
        //@ after ({f['name']},bytes)=<
        //@ tag tags.stop C13
            proof {{ if curr_len == bytes@.len() {{ crate::frame::lemma_tail_same_len(bytes@, b_pre); }} }}
"""
        reqasserts=''.join('assert(!%s.difference(seen).contains(%du16)); ' % (req, x) for x in reqt)
        arms=''.join(f"""        //@ before ({f['name']},bytes)=<
        //@ tag tags.no_second_dispatch.{f['name']} C13
            proof {{ assert(!seen.contains({f['tag']}u16)); seen = seen.insert({f['tag']}u16) ; }}
{vec_hint(f)}        //@ before returnErr(zvt_builder::ZVTError::DuplicateTag(
        //@ tag tags.duplicate_error_is_true.{f['name']} C13
            proof {{ assert(seen.contains({f['tag']}u16)) ; }}
""" for f in tagged)
        tags='[' + ', '.join(str(f['tag']) for f in fs if f['tag'] is not None) + ']'
        out.append(f'''    // ------------------------------------------------------------------ {mod}::{n}
    //@ item {MODS[mod]} | struct {n}
    impl zvt_builder::encoding::Encoding<{n}> for zvt_builder::encoding::Default {{
        open spec fn enc_ok(v: &{n}) -> bool {{ {pre} }}
        open spec fn canon(v: &{n}) -> bool {{ false }}
        /// layout table (spec/tables/layout.json): the fields in order, each under its tag / length style / encoding
        open spec fn spec_enc(v: &{n}) -> Seq<u8> {{ {lay} }}
        uninterp spec fn spec_dec(b: Seq<u8>) -> Option<({n}, int)>;
        open spec fn progresses() -> bool {{ false }}
        open spec fn self_delimiting() -> bool {{ false }}
        open spec fn dec_rel(b: Seq<u8>, v: &{n}, k: int) -> bool {{ true }}
        open spec fn dec_total(b: Seq<u8>) -> bool {{ false }}
        /// the tag loop stops only at the end of the input, in front of something that is no tag, or in front of a tag that
        /// is not one of this struct's non-repeatable fields
        open spec fn dec_stop(rest: Seq<u8>) -> bool {{ {stop} }}
        /// the tag loop is specified by totality and frame clauses only
        open spec fn functional() -> bool {{ false }}
        //@ fn exp:zvt | impl zvt_builder::encoding::Encoding<{n}> for zvt_builder::encoding::Default | encode | mod={mod} props=C03,~C01
        //@ end
        //@ fn exp:zvt | impl zvt_builder::encoding::Encoding<{n}> for zvt_builder::encoding::Default | decode | mod={mod} all-loops props=C02,C14
        //@ loop 0
                invariant
                    crate::is_tail(bytes@, bytes0), crate::frame::tail_base(bytes0), bytes@.len() <= bytes0.len(),
                    curr_len <= usize::MAX,
        //@ tag tags.bookkeeping C13
                    actual_tags@ =~= seen,
                    required_tags@ =~= {req}.difference(seen),
        //@ tag tags.stop C13
                    curr_len == bytes@.len() ==> <zvt_builder::encoding::Default as zvt_builder::encoding::Encoding<{n}>>::dec_stop(bytes@),
                ensures
                    <zvt_builder::encoding::Default as zvt_builder::encoding::Encoding<{n}>>::dec_stop(bytes@),
        //@ tag tags.loop.decreases C02
                decreases bytes@.len() + (if curr_len != bytes@.len() {{ 1nat }} else {{ 0nat }}),
        //@ entry
            let ghost bytes0 = bytes@;
            let ghost mut seen: Set<u16> = Set::<u16>::empty();
            proof {{ lemma_slice_len_le_isize_max(bytes); crate::frame::lemma_tail_base(bytes0); }}
{arms}        //@ before letmutas_vec
            let ghost req_left = required_tags@;
        //@ before returnErr(zvt_builder::ZVTError::MissingRequiredTags
        //@ tag tags.missing_names_all C13
            proof {{
                assert(req_left =~= {req}.difference(seen));
                assert forall|i: int| 0 <= i < as_vec@.len() implies {req}.contains((#[trigger] as_vec@[i]).0) && !seen.contains(as_vec@[i].0) by {{
                    assert(req_left.contains(as_vec@[i].0));
                }}
                assert forall|t: u16| {req}.contains(t) && !seen.contains(t) implies exists|i: int| 0 <= i < as_vec@.len() && (#[trigger] as_vec@[i]).0 == t by {{
                    assert(req_left.contains(t));
                }}
            }}
        //@ tail
        //@ tag tags.ok_only_if_all_mandatory C13
            proof {{ {reqasserts}assert({req}.subset_of(seen)); }}
        //@ end
        proof fn law_dec_bounds(b: Seq<u8>) {{}}
        proof fn law_dec_frame(b: Seq<u8>, s: Seq<u8>) {{}}
        proof fn law_inverse(v: &{n}) {{}}
    }}
''')
        ser.append(f'''    impl<L: zvt_builder::length::Length, TE: zvt_builder::encoding::Encoding<zvt_builder::Tag>> zvt_builder::ZvtSerializerImpl<L, zvt_builder::encoding::Default, TE> for crate::{mod}::{n} {{
        open spec fn ser_pre(&self, tag: Option<zvt_builder::Tag>) -> bool {{ zvt_builder::default_ser_pre::<Self, L, zvt_builder::encoding::Default, TE>(self, tag) }}
        open spec fn spec_ser_tagged(&self, tag: Option<zvt_builder::Tag>) -> Seq<u8> {{ zvt_builder::default_spec_ser::<Self, L, zvt_builder::encoding::Default, TE>(self, tag) }}
        open spec fn deser_pre(tag: Option<zvt_builder::Tag>) -> bool {{ L::wf() }}
        open spec fn functional() -> bool {{ false }}
        open spec fn deser_progresses(tag: Option<zvt_builder::Tag>) -> bool {{ tag is Some && TE::progresses() }}
        open spec fn deser_defined(b: Seq<u8>, tag: Option<zvt_builder::Tag>) -> bool {{ true }}
        open spec fn deser_ok(b: Seq<u8>, tag: Option<zvt_builder::Tag>, v: Self, k: int) -> bool {{ true }}
        //@ fn src:zvt_builder/src/lib.rs | trait ZvtSerializerImpl | serialize_tagged | subst=E:zvt_builder~encoding~Default props=C03
        //@ end
        //@ fn src:zvt_builder/src/lib.rs | trait ZvtSerializerImpl | deserialize_tagged | subst=E:zvt_builder~encoding~Default props=C02,C14
        //@ end
    }}''')
        if s['control']:
            c,i=s['control']
            out.append(f'''    //@ item exp:zvt | impl zvt_builder::ZvtCommand for {n} | mod={mod}
    //@ tag layout.control_field.{n} C03
    /// CLASS/INSTR of the APDU (layout table)
    pub proof fn lemma_ctrl_{n}()
        ensures <{n} as zvt_builder::ZvtCommand>::CLASS == {c}, <{n} as zvt_builder::ZvtCommand>::INSTR == {i},
    {{}}
    //@ untag''')
    open('/verif/spec/units/u2_%s.tpl' % mod.replace('::','_'),'w').write('\n'.join(out)+'\n')
    open('/verif/spec/units/u2ser_%s.tpl' % mod.replace('::','_'),'w').write('\n'.join(ser)+'\n')
print({m:len(v) for m,v in by.items()})
