// ---------------------------------------------------------------------------
// N6 adapters: std byte-order / slice helpers. Bodies are the original std
// calls (external_body: trusted, T6); each `ensures` is the documented std
// behaviour and is cross-checked against real std by the Kani group K2.
// Byte k of the little-endian form of v is (v / 256^k) % 256; big-endian is the
// reverse order. Written out per width so that no recursion fuel is needed.
// ---------------------------------------------------------------------------
pub open spec fn byte_of(v: nat, k: nat) -> u8 {
    ((v / pow256(k)) % 256) as u8
}
pub open spec fn pow256(k: nat) -> nat {
    if k == 0 { 1 } else if k == 1 { 0x100 } else if k == 2 { 0x1_0000 } else if k == 3 { 0x100_0000 }
    else if k == 4 { 0x1_0000_0000 } else if k == 5 { 0x100_0000_0000 } else if k == 6 { 0x1_0000_0000_0000 }
    else { 0x100_0000_0000_0000 }
}

pub open spec fn le_seq1(v: nat) -> Seq<u8> { seq![byte_of(v, 0)] }
pub open spec fn le_val1(s: Seq<u8>) -> nat { s[0] as nat * pow256(0) }
pub open spec fn be_seq1(v: nat) -> Seq<u8> { seq![byte_of(v, 0)] }
pub open spec fn be_val1(s: Seq<u8>) -> nat { s[0] as nat * pow256(0) }
pub open spec fn le_seq2(v: nat) -> Seq<u8> { seq![byte_of(v, 0), byte_of(v, 1)] }
pub open spec fn le_val2(s: Seq<u8>) -> nat { s[0] as nat * pow256(0) + s[1] as nat * pow256(1) }
pub open spec fn be_seq2(v: nat) -> Seq<u8> { seq![byte_of(v, 1), byte_of(v, 0)] }
pub open spec fn be_val2(s: Seq<u8>) -> nat { s[0] as nat * pow256(1) + s[1] as nat * pow256(0) }
pub open spec fn le_seq4(v: nat) -> Seq<u8> { seq![byte_of(v, 0), byte_of(v, 1), byte_of(v, 2), byte_of(v, 3)] }
pub open spec fn le_val4(s: Seq<u8>) -> nat { s[0] as nat * pow256(0) + s[1] as nat * pow256(1) + s[2] as nat * pow256(2) + s[3] as nat * pow256(3) }
pub open spec fn be_seq4(v: nat) -> Seq<u8> { seq![byte_of(v, 3), byte_of(v, 2), byte_of(v, 1), byte_of(v, 0)] }
pub open spec fn be_val4(s: Seq<u8>) -> nat { s[0] as nat * pow256(3) + s[1] as nat * pow256(2) + s[2] as nat * pow256(1) + s[3] as nat * pow256(0) }
pub open spec fn le_seq8(v: nat) -> Seq<u8> { seq![byte_of(v, 0), byte_of(v, 1), byte_of(v, 2), byte_of(v, 3), byte_of(v, 4), byte_of(v, 5), byte_of(v, 6), byte_of(v, 7)] }
pub open spec fn le_val8(s: Seq<u8>) -> nat { s[0] as nat * pow256(0) + s[1] as nat * pow256(1) + s[2] as nat * pow256(2) + s[3] as nat * pow256(3) + s[4] as nat * pow256(4) + s[5] as nat * pow256(5) + s[6] as nat * pow256(6) + s[7] as nat * pow256(7) }
pub open spec fn be_seq8(v: nat) -> Seq<u8> { seq![byte_of(v, 7), byte_of(v, 6), byte_of(v, 5), byte_of(v, 4), byte_of(v, 3), byte_of(v, 2), byte_of(v, 1), byte_of(v, 0)] }
pub open spec fn be_val8(s: Seq<u8>) -> nat { s[0] as nat * pow256(7) + s[1] as nat * pow256(6) + s[2] as nat * pow256(5) + s[3] as nat * pow256(4) + s[4] as nat * pow256(3) + s[5] as nat * pow256(2) + s[6] as nat * pow256(1) + s[7] as nat * pow256(0) }

// ---- round-trip lemmas for the byte-order spec functions (pure arithmetic) ----
pub proof fn lemma_bytes8_sum(v: u64)
    ensures ((v / 1) % 256) * 1 + ((v / 0x100) % 256) * 0x100 + ((v / 0x1_0000) % 256) * 0x1_0000 + ((v / 0x100_0000) % 256) * 0x100_0000 + ((v / 0x1_0000_0000) % 256) * 0x1_0000_0000 + ((v / 0x100_0000_0000) % 256) * 0x100_0000_0000 + ((v / 0x1_0000_0000_0000) % 256) * 0x1_0000_0000_0000 + ((v / 0x100_0000_0000_0000) % 256) * 0x100_0000_0000_0000 == v
{
    assert(((v / 1) % 256) * 1 + ((v / 0x100) % 256) * 0x100 + ((v / 0x1_0000) % 256) * 0x1_0000 + ((v / 0x100_0000) % 256) * 0x100_0000 + ((v / 0x1_0000_0000) % 256) * 0x1_0000_0000 + ((v / 0x100_0000_0000) % 256) * 0x100_0000_0000 + ((v / 0x1_0000_0000_0000) % 256) * 0x1_0000_0000_0000 + ((v / 0x100_0000_0000_0000) % 256) * 0x100_0000_0000_0000 == v) by (bit_vector);
}
pub proof fn lemma_bytes4_sum(v: u32)
    ensures ((v / 1) % 256) * 1 + ((v / 0x100) % 256) * 0x100 + ((v / 0x1_0000) % 256) * 0x1_0000 + ((v / 0x100_0000) % 256) * 0x100_0000 == v
{
    assert(((v / 1) % 256) * 1 + ((v / 0x100) % 256) * 0x100 + ((v / 0x1_0000) % 256) * 0x1_0000 + ((v / 0x100_0000) % 256) * 0x100_0000 == v) by (bit_vector);
}
pub proof fn lemma_le1_inv(v: nat)
    requires v < 0x100
    ensures le_val1(le_seq1(v)) == v, le_seq1(v).len() == 1
{  }
pub proof fn lemma_be1_inv(v: nat)
    requires v < 0x100
    ensures be_val1(be_seq1(v)) == v, be_seq1(v).len() == 1
{  }
pub proof fn lemma_le2_inv(v: nat)
    requires v < 0x1_0000
    ensures le_val2(le_seq2(v)) == v, le_seq2(v).len() == 2
{  }
pub proof fn lemma_be2_inv(v: nat)
    requires v < 0x1_0000
    ensures be_val2(be_seq2(v)) == v, be_seq2(v).len() == 2
{  }
pub proof fn lemma_le4_inv(v: nat)
    requires v < 0x1_0000_0000
    ensures le_val4(le_seq4(v)) == v, le_seq4(v).len() == 4
{ lemma_bytes4_sum(v as u32); }
pub proof fn lemma_be4_inv(v: nat)
    requires v < 0x1_0000_0000
    ensures be_val4(be_seq4(v)) == v, be_seq4(v).len() == 4
{ lemma_bytes4_sum(v as u32); }
pub proof fn lemma_le8_inv(v: nat)
    requires v < 0x1_0000_0000_0000_0000
    ensures le_val8(le_seq8(v)) == v, le_seq8(v).len() == 8
{ lemma_bytes8_sum(v as u64); }
pub proof fn lemma_be8_inv(v: nat)
    requires v < 0x1_0000_0000_0000_0000
    ensures be_val8(be_seq8(v)) == v, be_seq8(v).len() == 8
{ lemma_bytes8_sum(v as u64); }

pub trait VBytes: Sized {
    spec fn le_bytes(&self) -> Seq<u8>;
    spec fn be_bytes(&self) -> Seq<u8>;
    fn v_to_le_bytes_vec(&self) -> (r: Vec<u8>)
        ensures r@ == self.le_bytes();
    fn v_to_be_bytes_vec(&self) -> (r: Vec<u8>)
        ensures r@ == self.be_bytes();
}
impl VBytes for u8 {
    open spec fn le_bytes(&self) -> Seq<u8> { le_seq1(*self as nat) }
    open spec fn be_bytes(&self) -> Seq<u8> { be_seq1(*self as nat) }
    #[verifier::external_body]
    fn v_to_le_bytes_vec(&self) -> (r: Vec<u8>) { self.to_le_bytes().to_vec() }
    #[verifier::external_body]
    fn v_to_be_bytes_vec(&self) -> (r: Vec<u8>) { self.to_be_bytes().to_vec() }
}
impl VBytes for u16 {
    open spec fn le_bytes(&self) -> Seq<u8> { le_seq2(*self as nat) }
    open spec fn be_bytes(&self) -> Seq<u8> { be_seq2(*self as nat) }
    #[verifier::external_body]
    fn v_to_le_bytes_vec(&self) -> (r: Vec<u8>) { self.to_le_bytes().to_vec() }
    #[verifier::external_body]
    fn v_to_be_bytes_vec(&self) -> (r: Vec<u8>) { self.to_be_bytes().to_vec() }
}
impl VBytes for u32 {
    open spec fn le_bytes(&self) -> Seq<u8> { le_seq4(*self as nat) }
    open spec fn be_bytes(&self) -> Seq<u8> { be_seq4(*self as nat) }
    #[verifier::external_body]
    fn v_to_le_bytes_vec(&self) -> (r: Vec<u8>) { self.to_le_bytes().to_vec() }
    #[verifier::external_body]
    fn v_to_be_bytes_vec(&self) -> (r: Vec<u8>) { self.to_be_bytes().to_vec() }
}
impl VBytes for u64 {
    open spec fn le_bytes(&self) -> Seq<u8> { le_seq8(*self as nat) }
    open spec fn be_bytes(&self) -> Seq<u8> { be_seq8(*self as nat) }
    #[verifier::external_body]
    fn v_to_le_bytes_vec(&self) -> (r: Vec<u8>) { self.to_le_bytes().to_vec() }
    #[verifier::external_body]
    fn v_to_be_bytes_vec(&self) -> (r: Vec<u8>) { self.to_be_bytes().to_vec() }
}
impl VBytes for usize {
    open spec fn le_bytes(&self) -> Seq<u8> { le_seq8(*self as nat) }
    open spec fn be_bytes(&self) -> Seq<u8> { be_seq8(*self as nat) }
    #[verifier::external_body]
    fn v_to_le_bytes_vec(&self) -> (r: Vec<u8>) { self.to_le_bytes().to_vec() }
    #[verifier::external_body]
    fn v_to_be_bytes_vec(&self) -> (r: Vec<u8>) { self.to_be_bytes().to_vec() }
}
#[verifier::external_body]
pub fn v_u8_from_le_bytes(b: [u8; 1]) -> (r: u8) ensures r as nat == le_val1(b@) { u8::from_le_bytes(b) }
#[verifier::external_body]
pub fn v_u8_from_be_bytes(b: [u8; 1]) -> (r: u8) ensures r as nat == be_val1(b@) { u8::from_be_bytes(b) }
#[verifier::external_body]
pub fn v_u16_from_le_bytes(b: [u8; 2]) -> (r: u16) ensures r as nat == le_val2(b@) { u16::from_le_bytes(b) }
#[verifier::external_body]
pub fn v_u16_from_be_bytes(b: [u8; 2]) -> (r: u16) ensures r as nat == be_val2(b@) { u16::from_be_bytes(b) }
#[verifier::external_body]
pub fn v_u32_from_le_bytes(b: [u8; 4]) -> (r: u32) ensures r as nat == le_val4(b@) { u32::from_le_bytes(b) }
#[verifier::external_body]
pub fn v_u32_from_be_bytes(b: [u8; 4]) -> (r: u32) ensures r as nat == be_val4(b@) { u32::from_be_bytes(b) }
#[verifier::external_body]
pub fn v_u64_from_le_bytes(b: [u8; 8]) -> (r: u64) ensures r as nat == le_val8(b@) { u64::from_le_bytes(b) }
#[verifier::external_body]
pub fn v_u64_from_be_bytes(b: [u8; 8]) -> (r: u64) ensures r as nat == be_val8(b@) { u64::from_be_bytes(b) }
#[verifier::external_body]
pub fn v_usize_from_le_bytes(b: [u8; 8]) -> (r: usize) ensures r as nat == le_val8(b@) { usize::from_le_bytes(b) }
#[verifier::external_body]
pub fn v_usize_from_be_bytes(b: [u8; 8]) -> (r: usize) ensures r as nat == be_val8(b@) { usize::from_be_bytes(b) }

/// `u16::from_le_bytes(S.try_into().unwrap())`
#[verifier::external_body]
pub fn v_u16_from_le_bytes_slice(s: &[u8]) -> (r: u16)
    requires s@.len() == 2,
    ensures r as nat == le_val2(s@),
{ u16::from_le_bytes(s.try_into().unwrap()) }

/// `u16::from_be_bytes(S.try_into().unwrap())`
#[verifier::external_body]
pub fn v_u16_from_be_bytes_slice(s: &[u8]) -> (r: u16)
    requires s@.len() == 2,
    ensures r as nat == be_val2(s@),
{ u16::from_be_bytes(s.try_into().unwrap()) }

/// `<&[u8] as TryInto<[u8; N]>>::try_into`: Ok iff the slice has exactly N elements.
#[verifier::external_body]
pub fn v_try_into<const N: usize>(s: &[u8]) -> (r: Result<[u8; N], ()>)
    ensures
        s@.len() == N ==> (r matches Ok(a) && a@ == s@),
        s@.len() != N ==> r is Err,
{ s.try_into().map_err(|_| ()) }

/// `[a, b].concat()`
#[verifier::external_body]
pub fn v_concat2(a: Vec<u8>, b: Vec<u8>) -> (r: Vec<u8>)
    ensures r@ == a@ + b@,
{ [a, b].concat() }

/// `s == [..]` on byte slices (N6)
#[verifier::external_body]
pub fn v_bytes_eq(a: &[u8], b: &[u8]) -> (r: bool)
    ensures
        r == (a@ == b@),
        r <==> (a@.len() == b@.len() && forall|i: int| 0 <= i < a@.len() ==> a@[i] == b@[i]),
{ a == b }

pub assume_specification<T> [<[T]>::to_vec] (s: &[T]) -> (r: Vec<T>)
    where T: Clone
    ensures r@ == s@;

pub assume_specification<T> [<[T]>::reverse] (s: &mut [T])
    ensures final(s)@ == old(s)@.reverse();
