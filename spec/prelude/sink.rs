// ---------------------------------------------------------------------------
// N8: the consumer side of a `try_stream!` body. `yield e` is `sink.emit(e, stamp)`;
// a returned `Err(e)` is the single final error item of the stream (T2).
// The stamp records (bytes consumed, number of write attempts) at the yield.
// ---------------------------------------------------------------------------
#[verifier::external_body]
#[verifier::accept_recursive_types(I)]
pub struct VSink<I> { _p: core::marker::PhantomData<I> }
impl<I> VSink<I> {
    pub uninterp spec fn items(&self) -> Seq<I>;
    pub uninterp spec fn stamps(&self) -> Seq<(nat, nat)>;
    #[verifier::external_body]
    pub fn emit(&mut self, item: I, Ghost(st): Ghost<(nat, nat)>)
        ensures
            final(self).items() == old(self).items().push(item),
            final(self).stamps() == old(self).stamps().push(st),
    { unimplemented!() }
}
