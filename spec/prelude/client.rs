// ---------------------------------------------------------------------------
// Ghost environment of the terminal client (DESIGN.md §3.3, §6 C07/C08/C18–C20).
// The reconnecting socket is abstracted to (a) its configuration and (b) a ghost
// log of exchanges: every `X::into_stream(request, &mut socket)` appends the
// request together with the (prophesied) items that stream is going to deliver.
// The items are ARBITRARY: whatever stream.rs / sequences / io do underneath,
// every safety clause proved here holds (over-approximation of U5+U8).
// ---------------------------------------------------------------------------
#[derive(Debug)]
pub enum VErr {
    Io,
    Zvt(ZVTError),
    Feig(Error),
    /// anyhow!(..)/bail!(..) with a format string: text uninterpreted, identity of the site kept (id = FNV-1a of the literal)
    Msg(u64),
}
pub type Result<T> = core::result::Result<T, VErr>;

/// `?` / `.into()` / `bail!(e)` into anyhow::Error (N10): which error it was stays observable
pub trait IntoVErr { spec fn as_verr(self) -> VErr; fn into_verr(self) -> (r: VErr) ensures r == self.as_verr(); }
impl IntoVErr for ZVTError { open spec fn as_verr(self) -> VErr { VErr::Zvt(self) } fn into_verr(self) -> (r: VErr) { VErr::Zvt(self) } }
impl IntoVErr for Error { open spec fn as_verr(self) -> VErr { VErr::Feig(self) } fn into_verr(self) -> (r: VErr) { VErr::Feig(self) } }
impl IntoVErr for VErr { open spec fn as_verr(self) -> VErr { self } fn into_verr(self) -> (r: VErr) { self } }

/// a stream of reply items; `rest()` is what it will still deliver (prophecy)
#[verifier::external_body]
#[verifier::accept_recursive_types(T)]
pub struct VStream<T> { _p: core::marker::PhantomData<T> }
impl<T> VStream<T> {
    pub uninterp spec fn rest(&self) -> Seq<Result<T>>;
    /// `stream.next().await` (N7)
    #[verifier::external_body]
    pub fn next(&mut self) -> (r: Option<Result<T>>)
        ensures
            old(self).rest().len() == 0 ==> r is None && final(self).rest() == old(self).rest(),
            old(self).rest().len() > 0 ==> r == Some(old(self).rest()[0]) && final(self).rest() == old(self).rest().skip(1),
    { unimplemented!() }
}
pub fn drop<T>(_t: T) {}
pub assume_specification<T, F: FnOnce(T) -> bool> [Option::<T>::is_some_and] (o: Option<T>, f: F) -> (r: bool)
    requires o matches Some(v) ==> f.requires((v,)),
    ensures o matches Some(v) ==> f.ensures((v,), r), o is None ==> !r;
pub assume_specification<T: Copy> [Option::<&T>::copied] (o: Option<&T>) -> (r: Option<T>)
    ensures r == (match o { Some(v) => Some(*v), None => None });

/// format!(lit, args..) (N9): text uninterpreted, determined by the literal and the arguments
pub uninterp spec fn fmt0_spec(id: u64) -> Seq<char>;
pub uninterp spec fn fmt1_spec<A>(id: u64, a: A) -> Seq<char>;
pub uninterp spec fn fmt2_spec<A, B>(id: u64, a: A, b: B) -> Seq<char>;
#[verifier::external_body]
pub fn v_fmt0(id: u64) -> (r: String) ensures r@ == fmt0_spec(id) { unimplemented!() }
#[verifier::external_body]
pub fn v_fmt1<A>(id: u64, a: &A) -> (r: String) ensures r@ == fmt1_spec::<A>(id, *a) { unimplemented!() }
#[verifier::external_body]
pub fn v_fmt2<A, B>(id: u64, a: &A, b: &B) -> (r: String) ensures r@ == fmt2_spec::<A, B>(id, *a, *b) { unimplemented!() }

pub uninterp spec fn parse_usize_spec(s: Seq<char>) -> Option<usize>;
/// `s.parse::<usize>()` with the error converted by `?` (N9)
#[verifier::external_body]
pub fn v_parse_usize(s: &String) -> (r: Result<usize>)
    ensures r matches Ok(v) ==> parse_usize_spec(s@) == Some(v), r is Err ==> parse_usize_spec(s@) is None,
{ unimplemented!() }

// ---- std string functions used by read_card (specs: documented std behaviour; text functions uninterpreted) ----
pub assume_specification [String::len] (s: &String) -> (r: usize)
    ensures r == str_byte_len(s@);
/// UTF-8 length of the text; equals the number of characters for ASCII text
pub uninterp spec fn str_byte_len(s: Seq<char>) -> nat;
pub uninterp spec fn upper_spec(s: Seq<char>) -> Seq<char>;
pub assume_specification [str::to_uppercase] (s: &str) -> (r: String)
    ensures r@ == upper_spec(s@);
/// `s[from..].to_string()`
pub uninterp spec fn str_from_spec(s: Seq<char>, from: nat) -> Seq<char>;
#[verifier::external_body]
pub fn v_str_from(s: &String, from: usize) -> (r: String)
    requires from <= str_byte_len(s@),
    ensures r@ == str_from_spec(s@, from as nat),
{ unimplemented!() }
/// `x.strip_prefix(p).unwrap_or(&y).to_string()`
pub uninterp spec fn strip_prefix_spec(s: Seq<char>, p: Seq<char>) -> Option<Seq<char>>;
#[verifier::external_body]
pub fn v_strip_prefix_or(x: &String, p: &str, y: &String) -> (r: String)
    ensures r@ == (match strip_prefix_spec(x@, p@) { Some(t) => t, None => y@ }),
{ unimplemented!() }

/// `&s[from..]` on a `String` (N9 strviews)
#[verifier::external_body]
pub fn v_str_tail(s: &String, from: usize) -> (r: &str)
    requires from <= str_byte_len(s@),
    ensures r@ == str_from_spec(s@, from as nat),
{ unimplemented!() }
/// `x.strip_prefix(p).unwrap_or(y)` on string views (N9 strviews)
#[verifier::external_body]
pub fn v_strip_prefix_or_view<'a>(x: &'a str, p: &str, y: &'a str) -> (r: &'a str)
    ensures r@ == (match strip_prefix_spec(x@, p@) { Some(t) => t, None => y@ }),
{ unimplemented!() }

/// N11: `HashMap<String, usize>` as a finite map from token text to receipt number (T5)
#[verifier::external_body]
pub struct VMap { m: std::collections::HashMap<String, usize> }
impl VMap {
    pub uninterp spec fn view(&self) -> Map<Seq<char>, usize>;
    #[verifier::external_body]
    pub fn new() -> (r: Self) ensures r@ == Map::<Seq<char>, usize>::empty() { unimplemented!() }
    #[verifier::external_body]
    pub fn len(&self) -> (r: usize) ensures r == self@.len(), true { unimplemented!() }
    #[verifier::external_body]
    pub fn is_empty(&self) -> (r: bool) ensures r <==> self@ =~= Map::<Seq<char>, usize>::empty(), true { unimplemented!() }
    #[verifier::external_body]
    pub fn contains_key(&self, k: &str) -> (r: bool) ensures r == self@.contains_key(k@) { unimplemented!() }
    #[verifier::external_body]
    pub fn get(&self, k: &str) -> (r: Option<&usize>)
        ensures
            self@.contains_key(k@) ==> (r matches Some(v) && *v == self@[k@]),
            !self@.contains_key(k@) ==> r is None,
    { unimplemented!() }
    #[verifier::external_body]
    pub fn insert(&mut self, k: String, v: usize) -> (r: Option<usize>)
        ensures final(self)@ == old(self)@.insert(k@, v),
    { unimplemented!() }
    #[verifier::external_body]
    pub fn remove(&mut self, k: &str) -> (r: Option<usize>)
        ensures
            final(self)@ == old(self)@.remove(k@),
            old(self)@.contains_key(k@) ==> r == Some(old(self)@[k@]),
            !old(self)@.contains_key(k@) ==> r is None,
    { unimplemented!() }
    #[verifier::external_body]
    pub fn clear(&mut self) ensures final(self)@ == Map::<Seq<char>, usize>::empty() { unimplemented!() }
}

/// `futures::stream::repeat(()).throttle(secs).take(n)` (N9): the literals are kept so that C10 can pin them
pub struct VRetry { pub throttle_secs: u64, pub attempts: usize }
pub fn v_retry(throttle_secs: u64, attempts: usize) -> (r: VRetry)
    ensures r.throttle_secs == throttle_secs, r.attempts == attempts
{ VRetry { throttle_secs, attempts } }
pub struct VDuration { pub secs: u64 }
/// `Duration::from_secs`; a per-packet timeout of zero would make every wait time out at once (C10)
pub fn v_duration_from_secs(secs: u64) -> (r: VDuration)
    ensures r.secs == secs
{ VDuration { secs } }
