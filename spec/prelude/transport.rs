// ---------------------------------------------------------------------------
// Ghost transport (DESIGN.md §3.3). The byte stream of a connection is modelled
// by the bytes the peer will still deliver (`inbox`, a prophecy: however they are
// chunked), the count of bytes consumed so far, and the log of write attempts,
// each stamped with the consumed count at the time of writing (this orders
// writes against reads). T1: tokio's read_exact / write_all behave like this.
// ---------------------------------------------------------------------------
#[derive(Debug)]
pub enum VErr {
    /// transport failure (EOF inside a packet, reset, write failure)
    Io,
    /// codec error, payload kept
    Zvt(ZVTError),
    /// client-level error, payload kept
    Feig(FeigError),
    /// anyhow!(..)/bail!(..) with a format string: text uninterpreted, identity of the site kept
    Msg(u64),
}

pub trait VSource {
    /// the connection itself does not fail (no reset, no write error): a prophecy about the environment. Reads can then
    /// only fail for want of bytes. Nothing is assumed about it; positive ("is returned") clauses are conditional on it.
    spec fn reliable(&self) -> bool;
    spec fn inbox(&self) -> Seq<u8>;
    spec fn consumed(&self) -> nat;
    spec fn writes(&self) -> Seq<(Seq<u8>, nat)>;

    /// tokio::io::AsyncReadExt::read_exact (de-asynced, N7)
    fn read_exact(&mut self, buf: &mut [u8]) -> (r: Result<usize>)
        ensures
            final(self).writes() == old(self).writes(),
            final(buf)@.len() == old(buf)@.len(),
            final(self).consumed() >= old(self).consumed(),
            r is Ok ==> old(self).inbox().len() >= old(buf)@.len()
                && final(buf)@ =~= old(self).inbox().take(old(buf)@.len() as int)
                && final(self).inbox() =~= old(self).inbox().skip(old(buf)@.len() as int)
                && final(self).consumed() == old(self).consumed() + old(buf)@.len(),
            old(self).inbox().len() < old(buf)@.len() ==> r is Err,
            final(self).reliable() == old(self).reliable(),
            (old(self).reliable() && old(self).inbox().len() >= old(buf)@.len()) ==> r is Ok;

    /// tokio::io::AsyncReadExt::read (de-asynced, N7): delivers SOME prefix of what is there - possibly fewer bytes than
    /// the buffer holds, possibly none (end of stream)
    fn read(&mut self, buf: &mut [u8]) -> (r: Result<usize>)
        ensures
            final(self).writes() == old(self).writes(),
            final(buf)@.len() == old(buf)@.len(),
            final(self).consumed() >= old(self).consumed(),
            r matches Ok(n) ==> n <= old(buf)@.len() && n <= old(self).inbox().len()
                && (forall|i: int| 0 <= i < n ==> final(buf)@[i] == old(self).inbox()[i])
                && (forall|i: int| n <= i < old(buf)@.len() ==> final(buf)@[i] == old(buf)@[i])
                && final(self).inbox() =~= old(self).inbox().skip(n as int)
                && final(self).consumed() == old(self).consumed() + n,
            final(self).reliable() == old(self).reliable();

    /// `read_exact(&mut v[lo..hi])` (N16): fills exactly that sub-range of the vector
    fn read_exact_range(&mut self, v: &mut Vec<u8>, lo: usize, hi: usize) -> (r: Result<usize>)
        requires lo <= hi <= old(v)@.len(),
        ensures
            final(self).writes() == old(self).writes(),
            final(v)@.len() == old(v)@.len(),
            forall|i: int| 0 <= i < lo || hi <= i < old(v)@.len() ==> final(v)@[i] == old(v)@[i],
            final(self).consumed() >= old(self).consumed(),
            r is Ok ==> old(self).inbox().len() >= hi - lo
                && (forall|i: int| lo <= i < hi ==> final(v)@[i] == old(self).inbox()[i - lo])
                && final(self).inbox() =~= old(self).inbox().skip(hi - lo)
                && final(self).consumed() == old(self).consumed() + (hi - lo),
            old(self).inbox().len() < hi - lo ==> r is Err,
            final(self).reliable() == old(self).reliable(),
            (old(self).reliable() && old(self).inbox().len() >= hi - lo) ==> r is Ok;
    /// `read_exact(&mut v[lo..])` (N16)
    fn read_exact_from(&mut self, v: &mut Vec<u8>, lo: usize) -> (r: Result<usize>)
        requires lo <= old(v)@.len(),
        ensures
            final(self).writes() == old(self).writes(),
            final(v)@.len() == old(v)@.len(),
            forall|i: int| 0 <= i < lo ==> final(v)@[i] == old(v)@[i],
            final(self).consumed() >= old(self).consumed(),
            r is Ok ==> old(self).inbox().len() >= old(v)@.len() - lo
                && (forall|i: int| lo <= i < old(v)@.len() ==> final(v)@[i] == old(self).inbox()[i - lo])
                && final(self).inbox() =~= old(self).inbox().skip(old(v)@.len() - lo)
                && final(self).consumed() == old(self).consumed() + (old(v)@.len() - lo),
            old(self).inbox().len() < old(v)@.len() - lo ==> r is Err,
            final(self).reliable() == old(self).reliable(),
            (old(self).reliable() && old(self).inbox().len() >= old(v)@.len() - lo) ==> r is Ok;

    /// tokio::io::AsyncWriteExt::write_all (de-asynced, N7): the attempt is logged whether or not it succeeds
    fn write_all(&mut self, b: &[u8]) -> (r: core::result::Result<(), IoErr>)
        ensures
            final(self).writes() == old(self).writes().push((b@, old(self).consumed())),
            final(self).inbox() == old(self).inbox(),
            final(self).consumed() == old(self).consumed(),
            final(self).reliable() == old(self).reliable(),
            old(self).reliable() ==> r is Ok;
}
pub struct IoErr;

/// `.map_err(|e| anyhow::anyhow!(..))` (N9)
#[verifier::external_body]
pub fn v_map_err_anyhow<T>(r: core::result::Result<T, IoErr>) -> (o: Result<T>)
    ensures r is Ok <==> o is Ok, r matches Ok(v) ==> o == Result::<T>::Ok(v),
{ unimplemented!() }
