// ---------------------------------------------------------------------------
// Spec functions and lemmas shared by the units. Hand-written specification
// text only; no executable code.
// ---------------------------------------------------------------------------

/// k divided by 10, j times (the value left after removing j decimal digits).
pub open spec fn div10n(k: nat, j: nat) -> nat
    decreases j
{
    if j == 0 { k } else { div10n(k, (j - 1) as nat) / 10 }
}

pub open spec fn pow10(n: nat) -> nat
    decreases n
{
    if n == 0 { 1 } else { 10 * pow10((n - 1) as nat) }
}

/// Largest value the LLV reader can produce from j nibbles (each nibble <= 15).
pub open spec fn llv_bound(j: nat) -> nat
    decreases j
{
    if j == 0 { 0 } else { llv_bound((j - 1) as nat) * 10 + 15 }
}

pub proof fn lemma_llv_bound_mono(i: nat, j: nat)
    requires i <= j
    ensures llv_bound(i) <= llv_bound(j)
    decreases j
{
    if i < j { lemma_llv_bound_mono(i, (j - 1) as nat); }
}

pub proof fn lemma_llv_bound_19()
    ensures llv_bound(19) == 16666666666666666665nat
{
    assert(llv_bound(19) == 16666666666666666665nat) by (compute);
}

pub broadcast proof fn lemma_llv_bound_fits(j: nat)
    requires j <= 19
    ensures #[trigger] llv_bound(j) <= 0xffff_ffff_ffff_ffff
{
    lemma_llv_bound_mono(j, 19);
    lemma_llv_bound_19();
}

pub proof fn lemma_div10n_pow10(k: nat, j: nat)
    ensures div10n(k, j) == k / pow10(j), pow10(j) > 0
    decreases j
{
    if j > 0 {
        lemma_div10n_pow10(k, (j - 1) as nat);
        let p = pow10((j - 1) as nat);
        assert(pow10(j) == 10 * p);
        assert(div10n(k, j) == (k / p) / 10);
        vstd::arithmetic::div_mod::lemma_div_denominator(k as int, p as int, 10);
        assert((k / p) / 10 == k / (p * 10));
        assert(p * 10 == 10 * p) by (nonlinear_arith);
    } else {
        assert(k / 1 == k);
    }
}

pub broadcast proof fn lemma_or_f0_and_0f(d: u8)
    requires d < 16
    ensures #[trigger] ((0xf0u8 | d) & 0xf) == d
{
    assert(d < 16 ==> ((0xf0u8 | d) & 0xf) == d) by (bit_vector);
}

pub broadcast proof fn lemma_and_0f_le(x: u8)
    ensures #[trigger] (x & 0xf) <= 15
{
    assert((x & 0xf) <= 15) by (bit_vector);
}
