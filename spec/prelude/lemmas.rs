// ---------------------------------------------------------------------------
// Spec functions and lemmas shared by the units. Hand-written specification
// text only; no executable code.
// ---------------------------------------------------------------------------

/// k divided by 10, j times (the value left after removing j decimal digits).
pub open spec fn div10n(k: nat, j: nat) -> nat
    decreases j
{
    if j == 0 { k } else { div10n(k, (j - 1) as nat) / 10 }
}

pub open spec fn pow10(n: nat) -> nat
    decreases n
{
    if n == 0 { 1 } else { 10 * pow10((n - 1) as nat) }
}

/// Largest value the LLV reader can produce from j nibbles (each nibble <= 15).
pub open spec fn llv_bound(j: nat) -> nat
    decreases j
{
    if j == 0 { 0 } else { llv_bound((j - 1) as nat) * 10 + 15 }
}

pub proof fn lemma_llv_bound_mono(i: nat, j: nat)
    requires i <= j
    ensures llv_bound(i) <= llv_bound(j)
    decreases j
{
    if i < j { lemma_llv_bound_mono(i, (j - 1) as nat); }
}

pub proof fn lemma_llv_bound_19()
    ensures llv_bound(19) == 16666666666666666665nat
{
    assert(llv_bound(19) == 16666666666666666665nat) by (compute);
}

pub broadcast proof fn lemma_llv_bound_fits(j: nat)
    requires j <= 19
    ensures #[trigger] llv_bound(j) <= 0xffff_ffff_ffff_ffff
{
    lemma_llv_bound_mono(j, 19);
    lemma_llv_bound_19();
}

pub proof fn lemma_div10n_pow10(k: nat, j: nat)
    ensures div10n(k, j) == k / pow10(j), pow10(j) > 0
    decreases j
{
    if j > 0 {
        lemma_div10n_pow10(k, (j - 1) as nat);
        let p = pow10((j - 1) as nat);
        assert(pow10(j) == 10 * p);
        assert(div10n(k, j) == (k / p) / 10);
        vstd::arithmetic::div_mod::lemma_div_denominator(k as int, p as int, 10);
        assert((k / p) / 10 == k / (p * 10));
        assert(p * 10 == 10 * p) by (nonlinear_arith);
    } else {
        assert(k / 1 == k);
    }
}

pub broadcast proof fn lemma_or_f0_and_0f(d: u8)
    requires d < 16
    ensures #[trigger] ((0xf0u8 | d) & 0xf) == d
{
    assert(d < 16 ==> ((0xf0u8 | d) & 0xf) == d) by (bit_vector);
}

pub broadcast proof fn lemma_and_0f_le(x: u8)
    ensures #[trigger] (x & 0xf) <= 15
{
    assert((x & 0xf) <= 15) by (bit_vector);
}

// ---------------------------------------------------------------------------
// Packed BCD (C17)
// ---------------------------------------------------------------------------
/// the byte holding the two least significant decimal digits of k
pub open spec fn bcd_byte(k: nat) -> u8 {
    ((k % 10) as u8) | ((((k / 10) % 10) as u8) << 4)
}
/// least significant byte first (the order in which the encoder produces them)
pub open spec fn bcd_rev(k: nat) -> Seq<u8>
    decreases k
{
    if k == 0 { Seq::<u8>::empty() } else { seq![bcd_byte(k)] + bcd_rev(k / 10 / 10) }
}
/// most significant digit first: the wire form. No leading zero byte; 0 is the empty string.
pub open spec fn bcd_msb(k: nat) -> Seq<u8>
    decreases k
{
    if k == 0 { Seq::<u8>::empty() } else { bcd_msb(k / 100).push(bcd_byte(k)) }
}
/// one decoding step: two digits, or one digit when the low nibble is the F filler
pub open spec fn bcd_step(p: nat, d: u8) -> nat {
    if (d & 0xf) != 0xf { p * 100 + ((d >> 4) as nat) * 10 + (d & 0xf) as nat } else { p * 10 + (d >> 4) as nat }
}
/// value of the first j bytes; None as soon as it no longer fits `max`
pub open spec fn bcd_fold(b: Seq<u8>, j: nat, max: nat) -> Option<nat>
    decreases j
{
    if j == 0 { Some(0nat) } else {
        match bcd_fold(b, (j - 1) as nat, max) {
            None => None,
            Some(p) => if bcd_step(p, b[j - 1]) > max { None } else { Some(bcd_step(p, b[j - 1])) },
        }
    }
}
/// unbounded value of the first j bytes
pub open spec fn bcd_val(b: Seq<u8>, j: nat) -> nat
    decreases j
{
    if j == 0 { 0 } else { bcd_step(bcd_val(b, (j - 1) as nat), b[j - 1]) }
}

pub broadcast proof fn lemma_bcd_fold_overflow(b: Seq<u8>, j: nat, n: nat, max: nat)
    requires j < n, (#[trigger] bcd_fold(b, j, max)) matches Some(p) && bcd_step(p, b[j as int]) > max,
    ensures (#[trigger] bcd_fold(b, n, max)) is None
    decreases n
{
    if n > j + 1 { lemma_bcd_fold_overflow(b, j, (n - 1) as nat, max); }
}

pub broadcast proof fn lemma_shr4_le(x: u8)
    ensures #[trigger] (x >> 4) <= 15
{
    assert((x >> 4) <= 15) by (bit_vector);
}

pub proof fn lemma_bcd_step_mono(p: nat, d: u8)
    ensures bcd_step(p, d) >= p
{
    assert(p * 100 >= p) by (nonlinear_arith);
    assert(p * 10 >= p) by (nonlinear_arith);
}

/// the bounded fold is the unbounded value when it fits, None otherwise
pub proof fn lemma_bcd_fold_val(b: Seq<u8>, j: nat, max: nat)
    ensures
        bcd_val(b, j) <= max ==> bcd_fold(b, j, max) == Some(bcd_val(b, j)),
        bcd_val(b, j) > max ==> bcd_fold(b, j, max) is None,
    decreases j
{
    if j > 0 {
        lemma_bcd_fold_val(b, (j - 1) as nat, max);
        lemma_bcd_step_mono(bcd_val(b, (j - 1) as nat), b[j - 1]);
    }
}

pub proof fn lemma_bcd_val_prefix(a: Seq<u8>, b: Seq<u8>, j: nat)
    requires j <= a.len(), j <= b.len(), forall|i: int| 0 <= i < j ==> a[i] == b[i],
    ensures bcd_val(a, j) == bcd_val(b, j)
    decreases j
{
    if j > 0 { lemma_bcd_val_prefix(a, b, (j - 1) as nat); }
}

pub proof fn lemma_bcd_nibbles(lo: u8, hi: u8)
    requires lo < 16, hi < 16
    ensures ((lo | (hi << 4)) & 0xf) == lo, ((lo | (hi << 4)) >> 4) == hi
{
    assert(lo < 16 && hi < 16 ==> ((lo | (hi << 4)) & 0xf) == lo && ((lo | (hi << 4)) >> 4) == hi) by (bit_vector);
}

/// decoding the wire form gives the number back; all nibbles are decimal digits
pub proof fn lemma_bcd_msb_val(k: nat)
    ensures
        bcd_val(bcd_msb(k), bcd_msb(k).len()) == k,
        forall|i: int| 0 <= i < bcd_msb(k).len() ==> ((#[trigger] bcd_msb(k)[i]) & 0xf) < 10 && (bcd_msb(k)[i] >> 4) < 10,
        k > 0 ==> bcd_msb(k).len() > 0 && (bcd_msb(k)[0] != 0),
    decreases k
{
    if k > 0 {
        let s = bcd_msb(k / 100);
        lemma_bcd_msb_val(k / 100);
        let lo = (k % 10) as u8;
        let hi = ((k / 10) % 10) as u8;
        lemma_bcd_nibbles(lo, hi);
        let full = s.push(bcd_byte(k));
        assert(bcd_msb(k) =~= full);
        lemma_bcd_val_prefix(s, full, s.len());
        assert(bcd_val(full, full.len()) == bcd_step(bcd_val(full, s.len()), full[s.len() as int]));
        assert(k == (k / 100) * 100 + ((k / 10) % 10) * 10 + k % 10);
        if k / 100 == 0 {
            assert(s.len() == 0);
            assert(lo != 0 || hi != 0);
            assert(bcd_byte(k) != 0) by {
                assert(lo < 16 && hi < 16 && (lo != 0 || hi != 0) ==> (lo | (hi << 4)) != 0) by (bit_vector);
            }
        } else {
            assert(full[0] == s[0]);
        }
    }
}

/// the encoder's byte order reversed is the wire form
pub proof fn lemma_bcd_rev_msb(k: nat)
    ensures bcd_rev(k).reverse() =~= bcd_msb(k)
    decreases k
{
    if k > 0 {
        lemma_bcd_rev_msb(k / 100);
        assert(k / 10 / 10 == k / 100);
        let t = bcd_rev(k / 100);
        let x = seq![bcd_byte(k)] + t;
        assert(bcd_rev(k) =~= x);
        assert(x.reverse() =~= t.reverse().push(bcd_byte(k)));
    }
}

pub broadcast proof fn lemma_u16_shr8(x: u16)
    ensures #[trigger] (x >> 8) == x / 256
{
    assert((x >> 8) == x / 256) by (bit_vector);
}
