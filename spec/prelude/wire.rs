// ---------------------------------------------------------------------------
// Wire-level reference functions shared between units (same text included in
// U1 and U4, so the writer's and the reader's view of the APDU header are tied
// to one definition).
// ---------------------------------------------------------------------------
/// APDU length field: one byte below 255, otherwise 0xff followed by the length little-endian
pub open spec fn adpu_ser(len: nat) -> Seq<u8> {
    if len < 255 { seq![len as u8] } else { seq![0xffu8, (len % 256) as u8, ((len / 256) % 256) as u8] }
}
/// total size (header + body) of the APDU at the start of `b`, if `b` holds all of it
pub open spec fn apdu_total(b: Seq<u8>) -> Option<int> {
    if b.len() < 3 { None }
    else if b[2] == 0xff {
        if b.len() < 5 { None }
        else {
            let tot = 5 + b[3] as int + 256 * (b[4] as int);
            if b.len() < tot { None } else { Some(tot) }
        }
    } else {
        let tot = 3 + b[2] as int;
        if b.len() < tot { None } else { Some(tot) }
    }
}
