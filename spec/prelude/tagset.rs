// ---------------------------------------------------------------------------
// N11b: `std::collections::HashSet<u16>` as used by the tag loops, specified as a
// finite set of tag numbers (T5).
// ---------------------------------------------------------------------------
#[verifier::external_body]
pub struct VTagSet { s: std::collections::HashSet<u16> }
impl VTagSet {
    pub uninterp spec fn view(&self) -> Set<u16>;
    #[verifier::external_body]
    pub fn new() -> (r: Self) ensures r@ == Set::<u16>::empty() { unimplemented!() }
    #[verifier::external_body]
    pub fn from<const N: usize>(v: [u16; N]) -> (r: Self) ensures r@ == v@.to_set() { unimplemented!() }
    /// true iff the value was not present before
    #[verifier::external_body]
    pub fn insert(&mut self, t: u16) -> (r: bool)
        $TAGSET_INSERT
    { unimplemented!() }
    #[verifier::external_body]
    pub fn remove(&mut self, t: &u16) -> (r: bool)
        $TAGSET_REMOVE
    { unimplemented!() }
    #[verifier::external_body]
    pub fn is_empty(&self) -> (r: bool) ensures r <==> self@ =~= Set::<u16>::empty() { unimplemented!() }
    #[verifier::external_body]
    pub fn len(&self) -> (r: usize) ensures r == self@.len() { unimplemented!() }
}
/// N12: `required_tags.into_iter().map(|c| Tag(c)).collect()` followed by `sort_by_key(|t| t.0)`
#[verifier::external_body]
pub fn v_sorted_tags(s: VTagSet) -> (r: Vec<Tag>)
    ensures
        r@.len() == s@.len(),
        forall|i: int| 0 <= i < r@.len() ==> s@.contains((#[trigger] r@[i]).0),
        forall|t: u16| s@.contains(t) ==> exists|i: int| 0 <= i < r@.len() && (#[trigger] r@[i]).0 == t,
        forall|i: int, j: int| 0 <= i < j < r@.len() ==> (#[trigger] r@[i]).0 < (#[trigger] r@[j]).0,
{ unimplemented!() }
