// ---------------------------------------------------------------------------
// `rest` is what is left of `b` after removing some leading bytes (C14). The predicate is
// closed: decoders of composite types reason about it through the lemmas below (chains of
// suffixes), not through sequence axioms — that keeps the 21-arm tag loops affordable.
// ---------------------------------------------------------------------------
pub closed spec fn is_tail(rest: Seq<u8>, b: Seq<u8>) -> bool {
    rest.len() <= b.len() && rest =~= b.skip(b.len() - rest.len())
}
pub broadcast proof fn lemma_tail_intro(rest: Seq<u8>, b: Seq<u8>)
    requires rest.len() <= b.len(), rest =~= b.skip(b.len() - rest.len()),
    ensures #[trigger] is_tail(rest, b),
{}
/// what the predicate means (used where the bytes themselves matter)
pub broadcast proof fn lemma_tail_elim(rest: Seq<u8>, b: Seq<u8>)
    requires #[trigger] is_tail(rest, b),
    ensures rest.len() <= b.len(), rest =~= b.skip(b.len() - rest.len()),
{}
pub broadcast proof fn lemma_tail_len(rest: Seq<u8>, b: Seq<u8>)
    requires #[trigger] is_tail(rest, b),
    ensures rest.len() <= b.len(),
{}
pub broadcast proof fn lemma_tail_refl(b: Seq<u8>)
    ensures #[trigger] is_tail(b, b),
{
    assert(b.skip(0) =~= b);
}
/// a suffix as long as the whole is the whole
pub proof fn lemma_tail_same_len(rest: Seq<u8>, b: Seq<u8>)
    requires is_tail(rest, b), rest.len() == b.len(),
    ensures rest == b,
{
    assert(b.skip(0) =~= b);
}
/// marks the one sequence (a decoder's own input) relative to which suffix chains are composed; it carries no
/// information (always true) and only keeps the transitivity lemma from firing on every pair of links
pub closed spec fn tail_base(a: Seq<u8>) -> bool { true }
pub proof fn lemma_tail_base(a: Seq<u8>) ensures tail_base(a) {}
pub broadcast proof fn lemma_tail_trans(c: Seq<u8>, b: Seq<u8>, a: Seq<u8>)
    requires #[trigger] is_tail(c, b), #[trigger] is_tail(b, a), #[trigger] tail_base(a),
    ensures is_tail(c, a),
{
    assert(a.skip(a.len() - b.len()).skip(b.len() - c.len()) =~= a.skip(a.len() - c.len()));
}
