#!/bin/sh
# Build the framework from files on disk only (offline).
set -e
cd "$(dirname "$0")"
export CARGO_NET_OFFLINE=true
(cd tool && cargo build --release --offline 2>&1 | tail -2)
mkdir -p .work evidence
echo setup-ok
