//! `replay <harness> <value> [suffix-byte]`: runs ONE input of a Kani harness against the real code and prints what happens.
use zvt_builder::encoding::{self, Encoding};
use zvt_builder::length::{self, Length};
use zvt_builder::Tag;
use zvt_kani::*;

fn len_case<L: Length>(name: &str, len: usize, s: u8) -> bool {
    let p = L::serialize(len);
    let mut b = p.clone();
    b.push(s);
    println!("{name}: serialize({len}) = {p:02x?}; deserialize({b:02x?}) = {:?}", L::deserialize(&b));
    check_len_roundtrip::<L>(len, s)
}
fn bare_case<L: Length>(name: &str, len: usize, cut: usize) -> bool {
    let p = L::serialize(len);
    let k = if p.is_empty() { 0 } else { cut % p.len() };
    println!("{name}: serialize({len}) = {p:02x?}; deserialize(prefix alone) = {:?}; deserialize(first {k} byte(s) {:02x?}) = {:?}",
        L::deserialize(&p), &p[..k], L::deserialize(&p[..k]));
    check_len_bare::<L>(len, cut)
}
fn enc_case<T: PartialEq + std::fmt::Debug, E: Encoding<T>>(name: &str, v: T) -> bool {
    let b = E::encode(&v);
    println!("{name}: encode({v:?}) = {b:02x?}; decode = {:?}", E::decode(&b).map(|(w, r)| (w, r.to_vec())));
    check_enc_roundtrip::<T, E>(&v)
}
fn main() {
    let a: Vec<String> = std::env::args().collect();
    if a.len() < 3 { eprintln!("usage: replay <harness> <value> [suffix byte]"); std::process::exit(2); }
    let v: u128 = a[2].parse().expect("value");
    let s: u8 = a.get(3).map(|x| x.parse().expect("suffix")).unwrap_or(0);
    let ok = std::panic::catch_unwind(|| match a[1].as_str() {
        "tlv_bare" => bare_case::<length::Tlv>("Tlv", v as usize, s as usize),
        "adpu_bare" => bare_case::<length::Adpu>("Adpu", v as usize, s as usize),
        "llv_bare" => bare_case::<length::Llv>("Llv", v as usize, s as usize),
        "lllv_bare" => bare_case::<length::Lllv>("Lllv", v as usize, s as usize),
        "tlv_roundtrip" => len_case::<length::Tlv>("Tlv", v as usize, s),
        "adpu_roundtrip" => len_case::<length::Adpu>("Adpu", v as usize, s),
        "llv_roundtrip" => len_case::<length::Llv>("Llv", v as usize, s),
        "lllv_roundtrip" => len_case::<length::Lllv>("Lllv", v as usize, s),
        "le_u8_roundtrip" => enc_case::<u8, encoding::Default>("u8 LE", v as u8),
        "le_u16_roundtrip" => enc_case::<u16, encoding::Default>("u16 LE", v as u16),
        "le_u32_roundtrip" => enc_case::<u32, encoding::Default>("u32 LE", v as u32),
        "le_u64_roundtrip" => enc_case::<u64, encoding::Default>("u64 LE", v as u64),
        "le_usize_roundtrip" => enc_case::<usize, encoding::Default>("usize LE", v as usize),
        "be_u8_roundtrip" => enc_case::<u8, encoding::BigEndian>("u8 BE", v as u8),
        "be_u16_roundtrip" => enc_case::<u16, encoding::BigEndian>("u16 BE", v as u16),
        "be_u32_roundtrip" => enc_case::<u32, encoding::BigEndian>("u32 BE", v as u32),
        "be_u64_roundtrip" => enc_case::<u64, encoding::BigEndian>("u64 BE", v as u64),
        "be_usize_roundtrip" => enc_case::<usize, encoding::BigEndian>("usize BE", v as usize),
        "tag_default_roundtrip" => enc_case::<Tag, encoding::Default>("Tag", Tag(v as u16)),
        "tag_be_roundtrip" => enc_case::<Tag, encoding::BigEndian>("Tag BE", Tag(v as u16)),
        "bcd_u8_roundtrip" => enc_case::<u8, encoding::Bcd>("u8 BCD", v as u8),
        "bcd_u16_roundtrip" => enc_case::<u16, encoding::Bcd>("u16 BCD", v as u16),
        other => { eprintln!("unknown harness {other}"); std::process::exit(2); }
    });
    let ok = match ok {
        Ok(b) => b,
        Err(_) => { println!("REPLAY: the real code PANICKED for this input (see the panic message above)"); std::process::exit(1); }
    };
    if ok { println!("REPLAY: property holds for this input"); } else { println!("REPLAY: property VIOLATED for this input"); std::process::exit(1); }
}
