//! Executable statements of leaf-level properties over the real zvt_builder code. Each `check_*` returns true iff the
//! property holds for the given input; the Kani harnesses quantify over the inputs, `replay` runs one input and prints.
use zvt_builder::encoding::{self, Encoding};
#[allow(unused_imports)]
use zvt_builder::length::{self, Length};
use zvt_builder::Tag;

/// prefix ++ one suffix byte reads back as (len, that byte): exact length, nothing of the suffix touched (C16, C01, C14).
/// The buffer is a fixed array filled by a short counted loop (no Vec growth: keeps the model checker's unwinding small).
pub fn check_len_roundtrip<L: Length>(len: usize, s: u8) -> bool {
    let p = L::serialize(len);
    let n = p.len();
    if n > 7 { return false; }
    let mut buf = [s; 8];
    let mut i = 0;
    while i < n { buf[i] = p[i]; i += 1; }
    match L::deserialize(&buf[..n + 1]) {
        Ok((m, rest)) => m == len && rest.len() == 1 && rest[0] == s,
        Err(_) => false,
    }
}
/// the prefix alone reads back as (len, []), and every proper truncation of it is an error - never a value, never a panic
/// (C16 "a truncated prefix is an error", C02)
pub fn check_len_bare<L: Length>(len: usize, cut: usize) -> bool {
    let p = L::serialize(len);
    let n = p.len();
    if n == 0 || n > 7 { return false; }
    let mut buf = [0u8; 8];
    let mut i = 0;
    while i < n { buf[i] = p[i]; i += 1; }
    let whole = match L::deserialize(&buf[..n]) {
        Ok((m, rest)) => m == len && rest.is_empty(),
        Err(_) => false,
    };
    let k = cut % n;
    whole && L::deserialize(&buf[..k]).is_err()
}
/// decode(encode(v)) == (v, []) (C17, C01)
pub fn check_enc_roundtrip<T: PartialEq, E: Encoding<T>>(v: &T) -> bool {
    let b = E::encode(v);
    match E::decode(&b) {
        Ok((w, rest)) => w == *v && rest.is_empty(),
        Err(_) => false,
    }
}
/// a tag the default encoding can represent: two-byte tags 1fxx/ffxx, one-byte tags other than 1f/ff
pub fn tag_representable(t: u16) -> bool {
    let hi = t >> 8;
    hi == 0x1f || hi == 0xff || (t < 256 && t != 0x1f && t != 0xff)
}
pub fn check_tag_roundtrip(t: u16) -> bool {
    check_enc_roundtrip::<Tag, encoding::Default>(&Tag(t))
}

#[cfg(kani)]
mod proofs {
    use super::*;
    // ---- length prefixes: the only loops are the 8-byte buffer fill and (LLVAR) the digit loops: unwinding 9 with unwinding
    // assertions on is complete over the stated domain
    #[kani::proof]
    #[kani::unwind(9)]
    fn tlv_roundtrip() {
        let len: usize = kani::any();
        kani::assume(len <= 65535);
        let s: u8 = kani::any();
        assert!(check_len_roundtrip::<length::Tlv>(len, s));
    }
    #[kani::proof]
    #[kani::unwind(9)]
    fn adpu_roundtrip() {
        let len: usize = kani::any();
        kani::assume(len <= 65535);
        let s: u8 = kani::any();
        assert!(check_len_roundtrip::<length::Adpu>(len, s));
    }
    // LLVAR / LLLVAR: loops over N digits (N = 2, 3): unwinding 5 is complete (unwinding assertions on)
    #[kani::proof]
    #[kani::unwind(9)]
    fn llv_roundtrip() {
        let len: usize = kani::any();
        kani::assume(len <= 99);
        let s: u8 = kani::any();
        assert!(check_len_roundtrip::<length::Llv>(len, s));
    }
    #[kani::proof]
    #[kani::unwind(9)]
    fn lllv_roundtrip() {
        let len: usize = kani::any();
        kani::assume(len <= 999);
        let s: u8 = kani::any();
        assert!(check_len_roundtrip::<length::Lllv>(len, s));
    }
    macro_rules! bare { ($name:ident, $ty:ty, $max:expr) => {
        #[kani::proof]
        #[kani::unwind(9)]
        fn $name() {
            let len: usize = kani::any();
            kani::assume(len <= $max);
            let cut: usize = kani::any();
            kani::assume(cut < 8);
            assert!(check_len_bare::<$ty>(len, cut));
        }
    } }
    bare!(tlv_bare, length::Tlv, 65535);
    bare!(adpu_bare, length::Adpu, 65535);
    bare!(llv_bare, length::Llv, 99);
    bare!(lllv_bare, length::Lllv, 999);
    // ---- fixed-width integers: loop-free, full domain (also cross-checks the std adapters T6)
    macro_rules! int_rt { ($name:ident, $ty:ty, $enc:ty) => {
        #[kani::proof]
        fn $name() { let v: $ty = kani::any(); assert!(check_enc_roundtrip::<$ty, $enc>(&v)); }
    } }
    int_rt!(le_u8_roundtrip, u8, encoding::Default);
    int_rt!(le_u16_roundtrip, u16, encoding::Default);
    int_rt!(le_u32_roundtrip, u32, encoding::Default);
    int_rt!(le_u64_roundtrip, u64, encoding::Default);
    int_rt!(le_usize_roundtrip, usize, encoding::Default);
    int_rt!(be_u8_roundtrip, u8, encoding::BigEndian);
    int_rt!(be_u16_roundtrip, u16, encoding::BigEndian);
    int_rt!(be_u32_roundtrip, u32, encoding::BigEndian);
    int_rt!(be_u64_roundtrip, u64, encoding::BigEndian);
    int_rt!(be_usize_roundtrip, usize, encoding::BigEndian);
    // ---- tags
    #[kani::proof]
    fn tag_default_roundtrip() {
        let t: u16 = kani::any();
        kani::assume(tag_representable(t));
        assert!(check_tag_roundtrip(t));
    }
    #[kani::proof]
    fn tag_be_roundtrip() {
        let t: u16 = kani::any();
        assert!(check_enc_roundtrip::<Tag, encoding::BigEndian>(&Tag(t)));
    }
    // ---- packed BCD: loops bounded by the digit count of the type (u8: 2 bytes, u16: 3, u32: 5): BOUNDED by width,
    // complete with unwinding assertions; u64/usize (10 bytes) are left to Verus
    #[kani::proof]
    #[kani::unwind(4)]
    fn bcd_u8_roundtrip() { let v: u8 = kani::any(); assert!(check_enc_roundtrip::<u8, encoding::Bcd>(&v)); }
    #[kani::proof]
    #[kani::unwind(5)]
    fn bcd_u16_roundtrip() { let v: u16 = kani::any(); assert!(check_enc_roundtrip::<u16, encoding::Bcd>(&v)); }
}
